#!/bin/sh
# Run every claimed check (quick tier by default) in /verif against /repo and keep the logs.
cd "$(dirname "$0")/.." || exit 2
TIER=${1:-quick}
mkdir -p /var/tmp/verif-logs
for id in $(python3 -c "import json;print(' '.join(c['property_id'] for c in json.load(open('MANIFEST.json'))['checks']))"); do
  echo "== $id $(date +%H:%M:%S)"
  ./check $id --tier $TIER > /var/tmp/verif-logs/$id.$TIER.log 2>&1
  echo "   exit $? $(tail -1 /var/tmp/verif-logs/$id.$TIER.log | cut -c1-120)"
done
