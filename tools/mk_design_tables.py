#!/usr/bin/env python3
"""Rewrite sections 11.4 (seeded changes) and 11.5 (listed findings) of DESIGN.md from
seeded/*/meta.json, seeded/MATRIX.txt and known_findings.json.  The prose of both sections is
kept in this file so that tables and counts cannot drift from the data."""
import json
import pathlib
import re

V = pathlib.Path(__file__).resolve().parent.parent
design = (V / 'DESIGN.md').read_text()
head = design[:design.index('### 11.4 Seeded breaking changes')]

metas = []
for d in sorted((V / 'seeded').iterdir()):
    if (d / 'meta.json').exists():
        metas.append(json.loads((d / 'meta.json').read_text()))
matrix = {}
mt = V / 'seeded' / 'MATRIX.txt'
if mt.exists():
    for line in mt.read_text().splitlines():
        m = re.match(r'(\S+) check=\S+ exit=(\d+) (\w+)', line)
        if m:
            matrix[m.group(1)] = m.group(3)
rounds = {'': 1, 'b': 2, 'c': 3, 'd': 4, 'e': 5}
n = len(metas)
first_miss = sum(1 for m in metas if m['detection'].startswith(('missed', 'not reached')))


def cell(s, k):
    s = ' '.join(s.split()).replace('|', '/')
    return s if len(s) <= k else s[:k - 1] + '…'


rows = ['| id | change | detection | last matrix |', '|---|---|---|---|']
for m in metas:
    rows.append('| %s | %s | %s | %s |' % (m['id'], cell(m['summary'], 260), cell(m['detection'], 420),
                                          matrix.get(m['id'], 'n/a')))

s114 = '''### 11.4 Seeded breaking changes (`/verif/seeded/<id>/`)

%d changes to jedi in five rounds (`Cxx` = round 1, `Cxxb` = round 2, `Cxxc` = round 3, `Cxxd` = round 4, `Cxxe` =
round 5, which covered C07, C12, C13, C16, C17 and C18 only; no `C15c` was kept) were written by independent sub-agents that saw only
the property record and a scratch worktree (never `/verif`; from round 2 on additionally one-line descriptions of the
earlier changes for the same property, to be avoided). Each was asked for a plausible maintainer mistake that still
passes the 264 pinned tests and needs something specific to manifest, with a demonstration script. All were confirmed
here (`tools/seed_validate.sh`: the demo exits 1 with the change and 0 on an unpatched checkout; the pinned suite passes
in the worktree) before being kept as `patch.diff` + `demo_<id>.py` + `meta.json` (`meta.agent.json` is the agent's own
record). `tools/seed_matrix.sh` applies each patch to `/repo`, runs the quick check of the property and undoes it
(`git -C /repo checkout -- .`); `tools/seed_matrix_par.sh` does the same on scratch worktrees of `/repo` HEAD through
`VERIF_REPO`, several at a time, without touching `/repo`. The last recorded outcomes are in `seeded/MATRIX.txt`
(column "last matrix"; the quick tier with the default seed). Of the %d changes, %d were missed (or, where the gap was
plain from the agent's description, predicted to be missed) by the checks as they stood and led to wider generators
or stronger oracles - never to a looser one.

%s

What the misses taught: a monitor only sees what the workload drives. Almost every miss was a workload gap (a shape
the generator never produced). The structural ones: C16 round 1 (the reference answer was taken on the same Script, so
an answer bent by earlier queries was its own reference); C07 round 1 (a check weakened to a record after a false alarm
was re-built in a form that separates "inserted line with another ending" from "existing line rewritten only in its
ending"); C06 round 2 (statement ranges carried the compile clause only); C08 round 1 (caught or missed depending on
machine load until the time-based caches got a virtual clock); C15 round 2 (a listed finding keyed too broadly would
have masked it); C12 round 3 (state snapshots were taken around queries only, after the helper had been started); C14
round 3 (the injector only fired inside `_send`, after the pending deletions had already been flushed to the still
living helper: a silent death between requests was needed); and a whole family in round 4 - C07, C13, C17, C18 and
C16 were "missed by construction" because the harness asked every question through a new Script / Interpreter, looked
only at positions inside the buffer, or compared processes on single buffers: per-object and per-process state that
survives from one request to the next is now exercised on purpose (one Script for several refactorings, one
Interpreter for two instances, earlier versions on the same path, projects with more files than one search scans).
Several widenings also exposed further genuine defects of the pinned tree (C03 M8/M9/M10, C06 read-before-rebind,
conditional rebinding and operand runs, C15 four more RecursionError shapes, C16 union receivers), now listed.
''' % (n, n, first_miss, '\n'.join(rows))

kf = json.loads((V / 'known_findings.json').read_text())['findings']
open_ = [f for f in kf if f.get('status', 'open') == 'open']
fixed = [f for f in kf if f.get('status') == 'fixed']
rows = ['| property | mechanism key | what fails |', '|---|---|---|']
for f in sorted(open_, key=lambda f: (f['property'], f['key'])):
    rows.append('| %s | `%s` | %s |' % (f['property'], f['key'], cell(f['description'], 230)))
s115 = '''
### 11.5 Listed findings (open entries of `known_findings.json`, %d; %d more are `fixed:` records)

%s

Each key is evaluated by the monitor on a new failure (exception class + innermost jedi frame; generator
shape/role/gadget tag; mtime relation; equality of the name sequences of two completion lists; ...) and never contains
a seed, a case hash or a random value. A violation whose key is not in this list is reported as `VIOLATION`. Checks
print `KNOWN-FINDING:` for every listed finding their run reproduced (C01, C02, C03, C15, C16, C17, C19 carry explicit
witness cases so that this is every run, up to address-dependent ones) and a `note:` line for a listed finding the run
happened not to reach.
''' % (len(open_), len(fixed), '\n'.join(rows))

s116 = (V / 'tools' / 'design_11_6.md').read_text()
(V / 'DESIGN.md').write_text(head + s114 + s115 + '\n' + s116)
print('seeds', n, 'first missed', first_miss, 'open findings', len(open_), 'fixed', len(fixed))
