#!/usr/bin/env python3
"""Run the repository's pinned baseline suite (guard off) and compare with
/root/.vp/BASELINE.json stable_pass.  Exit 0 iff every stable test still passes."""
import json
import os
import subprocess
import sys
import tempfile
import xml.etree.ElementTree as ET

base = json.load(open('/root/.vp/BASELINE.json'))
fd, out = tempfile.mkstemp(suffix='.xml', dir='/var/tmp')
os.close(fd)
cmd = base['cmd'].replace('<file>', out)
if len(sys.argv) > 1:
    # run the pinned suite in another checkout (seeded-change validation)
    cmd = cmd.replace('cd /repo', 'cd ' + sys.argv[1])
env = dict(os.environ)
env.pop('JEDI_VERIF', None)
r = subprocess.run(cmd, shell=True, env=env, capture_output=True, text=True)
passed = set()
for tc in ET.parse(out).getroot().iter('testcase'):
    if not any(ch.tag in ('failure', 'error', 'skipped') for ch in tc):
        passed.add('%s::%s' % (tc.get('classname'), tc.get('name')))
os.unlink(out)
missing = [t for t in base['stable_pass'] if t not in passed]
print('baseline: %d stable tests, %d pass now, %d missing' %
      (len(base['stable_pass']), len(passed), len(missing)))
for t in missing[:40]:
    print('  MISSING', t)
sys.exit(1 if missing else 0)
