#!/usr/bin/env python3
"""Add one open known finding per C01 exception key found in /verif/violations/C01-*.json
(run after sweeps on the unchanged tree; every key is a genuine internal exception escaping
the query API, identified by exception class + innermost jedi frame, with a replayable
witness spec).  Manual step: never run by a check."""
import glob
import json
import pathlib

V = pathlib.Path(__file__).resolve().parent.parent
kf = json.loads((V / 'known_findings.json').read_text())
have = {(f['property'], f['key']) for f in kf['findings']}
added = 0
for f in sorted(glob.glob(str(V / 'violations' / 'C01-*.json'))):
    d = json.load(open(f))
    key = d['key']
    if not key.startswith('exc:') or ('C01', key) in have:
        continue
    w = d['violation']['witness']
    kf['findings'].append({
        'property': 'C01', 'status': 'open', 'key': key,
        'description': 'internal exception escapes the query API on broken/unusual code: %s'
                       % d['violation']['msg'][:160].replace('\n', ' '),
        'witness': {'replay_spec': d['spec'], 'tier': d.get('tier'), 'seed': d.get('seed'),
                    'method': w.get('method') or w.get('family'), 'pos': w.get('pos'),
                    'object': w.get('obj_name')}})
    have.add(('C01', key))
    added += 1
(V / 'known_findings.json').write_text(json.dumps(kf, indent=1))
print('added', added)
