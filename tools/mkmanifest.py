#!/usr/bin/env python3
"""Regenerate MANIFEST.json from the table below (claimed checks) + properties.jsonl."""
import json
import pathlib

V = pathlib.Path(__file__).resolve().parent.parent
props = [json.loads(l) for l in open(V / 'properties.jsonl')]

# id -> (level, technique, level text, level note, design ref)
CLAIMED = json.loads((V / 'tools' / 'claimed.json').read_text())

checks = []
for p in props:
    c = CLAIMED.get(p['id'])
    if not c:
        continue
    checks.append({
        'property_id': p['id'],
        'quick_cmd': './check %s --tier quick' % p['id'],
        'thorough_cmd': './check %s --tier thorough' % p['id'],
        'evidence_file': 'evidence/%s.json' % p['id'],
        'replay_cmd_template': './check %s --replay {path}' % p['id'],
        'engine': 'vf',
        'level_claimed': {'category': c['level'], 'text': c['text'],
                          'design_ref': 'DESIGN.md section 4, %s' % p['id']},
        'level_note': c['note'],
        'technique': c['technique'],
    })
na = [{'property_id': p['id'],
       'reason': 'check not built yet (work in progress; see DESIGN.md section 9 for the order)'}
      for p in props if p['id'] not in CLAIMED]
m = {
    'version': 1,
    'setup_cmd': "/venv/bin/python -c \"import sys; sys.path.insert(0,'/verif'); from vf.driver import ensure_deps; ensure_deps()\"",
    'hooks': {
        'guard': 'JEDI_VERIF',
        'enable': 'no hooks in /repo: all instrumentation (proxies, contracts, sys.monitoring, '
                  'audit hooks, helper sitecustomize) is applied from /verif at run time; checks '
                  "import jedi from /repo's working tree (VERIF_REPO overrides for self-tests)",
        'baseline_off_cmd': 'python3 /verif/tools/baseline.py',
        'source_commits': [],
        'add_only': True,
    },
    'engines': [{
        'name': 'vf', 'path': '/verif/vf', 'serves_properties': sorted(CLAIMED),
        'kind_free_text': 'runtime monitoring: generated workloads drive the real jedi API in '
                          'worker processes; online monitors (exception contract, completion '
                          'algebra, position faithfulness, sys.monitoring work counter, state '
                          'restoration) and offline checkers over recorded results against '
                          'executed-Python oracles (ast/tokenize/inspect/importlib/program runs)',
    }],
    'checks': checks,
    'notes': 'See DESIGN.md. ./check <id> --tier quick|thorough [--seed N]; exit 0 held, 1 '
             'violation (VIOLATION line + replay file), 2 inconclusive. Known findings: '
             'known_findings.json. Seeded breaking changes: seeded/.',
    'not_applicable': na,
}
(V / 'MANIFEST.json').write_text(json.dumps(m, indent=1) + '\n')
print('claimed:', sorted(CLAIMED), 'not yet:', [x['property_id'] for x in na])
