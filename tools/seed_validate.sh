#!/bin/sh
# tools/seed_validate.sh <ID> [name]: confirm a sub-agent's change in /tmp/seed-<ID> (demo fails with
# it, passes on /repo, pinned suite still passes), then store it under /verif/seeded/<name>/.
ID=$1; NAME=${2:-$1}; W=${3:-/tmp/seed-$ID}
cd /verif || exit 2
/venv/bin/python $W/demo_$ID.py $W > /var/tmp/seed-$NAME.demo-with.txt 2>&1; A=$?
CLEAN=/repo; [ -d /tmp/clean-repo ] && CLEAN=/tmp/clean-repo   # an unpatched checkout of HEAD
/venv/bin/python $W/demo_$ID.py $CLEAN > /var/tmp/seed-$NAME.demo-without.txt 2>&1; B=$?
echo "demo with change: exit $A; on /repo: exit $B"
python3 tools/baseline.py $W > /var/tmp/seed-$NAME.baseline.txt 2>&1; C=$?
tail -1 /var/tmp/seed-$NAME.baseline.txt
if [ $A -eq 1 ] && [ $B -eq 0 ] && [ $C -eq 0 ]; then
  mkdir -p seeded/$NAME
  (cd $W && git diff -- jedi) > seeded/$NAME/patch.diff
  cp $W/demo_$ID.py seeded/$NAME/
  cp $W/meta.json seeded/$NAME/meta.agent.json
  echo "CONFIRMED $NAME"
else
  echo "NOT CONFIRMED $NAME"
fi
