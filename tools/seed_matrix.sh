#!/bin/sh
# For every seeded change: apply it to /repo, run the check of the property it breaks (quick tier),
# undo it straight afterwards.  Prints one line per change: caught (exit 1) or MISSED.
cd /verif || exit 2
git -C /repo diff --quiet || { echo "/repo has local changes, refusing"; exit 2; }
OUT=${1:-/var/tmp/seed-matrix.txt}
: > $OUT
for d in seeded/*/; do
  id=$(basename $d)
  prop=$(echo $id | cut -c1-3)
  git -C /repo apply /verif/$d/patch.diff || { echo "$id patch does not apply" >> $OUT; continue; }
  t0=$(date +%s)
  ./check $prop --no-evidence > /var/tmp/seed-matrix-$id.log 2>&1
  rc=$?
  git -C /repo checkout -- .
  key=$(grep -m1 '  key:' /var/tmp/seed-matrix-$id.log | sed 's/  key: //')
  echo "$id check=$prop exit=$rc $( [ $rc -eq 1 ] && echo CAUGHT || echo MISSED ) secs=$(( $(date +%s) - t0 )) first_key=$key" >> $OUT
done
git -C /repo status --short | head -3
