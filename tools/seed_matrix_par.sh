#!/bin/sh
# tools/seed_matrix_par.sh [-j N] <seed id>...: like seed_matrix.sh, but each change is applied to its
# own scratch worktree of /repo (under /tmp, removed afterwards) and the quick check of the property is
# pointed at it with VERIF_REPO, so several changes can be tried at once and /repo is never touched.
# One line per change in /var/tmp/seed-matrix-par.txt.  (Plans are fixed case lists, so a loaded machine
# changes wall time only; the 900 s watchdog of a shard is the one thing load can trip.)
cd /verif || exit 2
J=3; [ "$1" = "-j" ] && { J=$2; shift 2; }
OUT=/var/tmp/seed-matrix-par.txt
one() {
  id=$1; prop=$(echo $id | cut -c1-3); W=/tmp/sm-$id
  git -C /repo worktree remove --force $W 2>/dev/null
  git -C /repo worktree add --detach -q $W HEAD || return
  git -C $W apply /verif/seeded/$id/patch.diff || { echo "$id patch does not apply" >> $OUT; git -C /repo worktree remove --force $W; return; }
  t0=$(date +%s)
  VERIF_REPO=$W ./check $prop --no-evidence > /var/tmp/seed-matrix-$id.log 2>&1; rc=$?
  git -C /repo worktree remove --force $W
  key=$(grep -m1 '  key:' /var/tmp/seed-matrix-$id.log | sed 's/  key: //')
  echo "$id check=$prop exit=$rc $( [ $rc -eq 1 ] && echo CAUGHT || echo MISSED ) secs=$(( $(date +%s) - t0 )) first_key=$key" >> $OUT
}
if [ "$1" = "--one" ]; then one $2; exit 0; fi
printf '%s\n' "$@" | xargs -P $J -I{} sh $0 --one {}
sort $OUT
