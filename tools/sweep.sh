#!/bin/sh
# tools/sweep.sh "<seeds>" <check id>...: run the quick tier of the given checks on the unchanged tree for
# each VERIF_SEED (no evidence written), two at a time; one line per run in /var/tmp/sweep.txt.
cd /verif || exit 2
SEEDS=$1; shift
for s in $SEEDS; do for id in "$@"; do echo "$s $id"; done; done | xargs -P 2 -L 1 sh -c '
  s=$0; id=$1; mkdir -p /var/tmp/sweep; VERIF_SEED=$s ./check $id --no-evidence > /var/tmp/sweep/$id.$s.log 2>&1; rc=$?
  echo "seed=$s $id exit=$rc $(grep -c "^VIOLATION" /var/tmp/sweep/$id.$s.log) violations; $(grep -m1 "  key:" /var/tmp/sweep/$id.$s.log)" >> /var/tmp/sweep.txt'
