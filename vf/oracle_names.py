"""Ground truth about identifier tokens of a valid Python text, from the standard library
only: `tokenize` (which tokens exist, where) and `ast` (which of them bind).

classify(text) -> {(line, col): (name, verdict)} with verdict in
  'bind'   the token binds (Store targets incl. attribute targets, def/class names,
           parameters, import aliases / imported names, `as` targets, walrus, for targets)
  'use'    the token does not bind
  'open'   not settled by the property's wording (del targets, names in global/nonlocal
           statements, soft keywords) -- recorded, never charged
or None if the text does not tokenize/parse under the running interpreter.
"""
import ast
import io
import keyword
import tokenize
import unicodedata

SOFT = {'match', 'case', '_', 'type'}


def _char_col(line_text, byte_col):
    return len(line_text.encode('utf-8')[:byte_col].decode('utf-8', 'replace'))


def classify(text):
    try:
        tree = ast.parse(text)
        toks = list(tokenize.generate_tokens(io.StringIO(text, newline=None).readline))
    except Exception:   # incl. SystemError raised by the C tokenizer on null bytes
        return None
    src_lines = io.StringIO(text, newline=None).readlines()

    def cc(lineno, byte_col):
        if 1 <= lineno <= len(src_lines):
            return _char_col(src_lines[lineno - 1], byte_col)
        return byte_col

    has_soft = any(isinstance(n, (ast.Match,) + ((ast.TypeAlias,) if hasattr(ast, 'TypeAlias')
                                                 else ())) for n in ast.walk(tree))
    names = [t for t in toks if t.type == tokenize.NAME]
    out = {}
    for t in names:
        if keyword.iskeyword(t.string):
            continue
        out[(t.start[0], t.start[1])] = [t.string, 'use']
    if has_soft:
        for k, v in out.items():
            if v[0] in SOFT:
                v[1] = 'open'

    def mark(pos, verdict, name=None):
        v = out.get(pos)
        # (ast identifiers are NFKC-normalised by the compiler, tokens are as written)
        if v is not None and (name is None or v[0] == name
                              or unicodedata.normalize('NFKC', v[0]) == name) and v[1] != 'open':
            v[1] = verdict
        elif v is not None and verdict == 'open':
            v[1] = 'open'

    # token-level facts: name after def/class; name after `as`; global/nonlocal lists
    sig = [t for t in toks if t.type not in (tokenize.COMMENT, tokenize.NL)]
    for i, t in enumerate(sig):
        if t.type != tokenize.NAME:
            continue
        if t.string in ('def', 'class') and i + 1 < len(sig) and sig[i + 1].type == tokenize.NAME:
            mark(sig[i + 1].start, 'bind')
        elif t.string == 'as' and i + 1 < len(sig) and sig[i + 1].type == tokenize.NAME \
                and not keyword.iskeyword(sig[i + 1].string):
            # import-as, except-as, with-as NAME, match-as: the single name after `as` binds
            # (with-as of a tuple/attribute is handled through ast Store contexts)
            nxt = sig[i + 2] if i + 2 < len(sig) else None
            if nxt is None or nxt.string not in ('.', '[', '('):
                mark(sig[i + 1].start, 'bind')
        elif t.string in ('global', 'nonlocal'):
            j = i + 1
            while j < len(sig) and sig[j].type != tokenize.NEWLINE and sig[j].string != ';':
                if sig[j].type == tokenize.NAME:
                    mark(sig[j].start, 'open')
                j += 1

    for node in ast.walk(tree):
        if isinstance(node, ast.Name):
            pos = (node.lineno, cc(node.lineno, node.col_offset))
            if isinstance(node.ctx, ast.Store):
                mark(pos, 'bind', node.id)
            elif isinstance(node.ctx, ast.Del):
                mark(pos, 'open', node.id)
        elif isinstance(node, ast.Attribute) and isinstance(node.ctx, (ast.Store, ast.Del)):
            end_col = cc(node.end_lineno, node.end_col_offset)
            pos = (node.end_lineno, end_col - len(node.attr))
            mark(pos, 'bind' if isinstance(node.ctx, ast.Store) else 'open', node.attr)
        elif isinstance(node, ast.arg):
            mark((node.lineno, cc(node.lineno, node.col_offset)), 'bind', node.arg)
        elif isinstance(node, (ast.Import, ast.ImportFrom)):
            for al in node.names:
                if al.name == '*' or al.asname is not None:
                    continue  # `as` target marked above
                pos = (al.lineno, cc(al.lineno, al.col_offset))
                first = al.name.split('.')[0]
                mark(pos, 'bind', first)
        elif isinstance(node, ast.MatchAs) and node.name and node.pattern is None:
            mark((node.lineno, cc(node.lineno, node.col_offset)), 'bind', node.name)
        elif isinstance(node, ast.MatchStar) and node.name:
            mark((node.lineno, cc(node.lineno, node.col_offset) + 1), 'bind', node.name)
        elif isinstance(node, ast.ExceptHandler):
            pass
    return {k: tuple(v) for k, v in out.items()}
