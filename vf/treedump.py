"""Structural dump of a parso tree (type, value, prefix, positions) for the C08 precondition:
the incrementally re-parsed tree must equal a from-scratch parse."""
import hashlib


def dump(node):
    h = hashlib.sha1()

    def rec(n):
        h.update(('%s|%s|%s' % (n.type, n.start_pos, n.end_pos)).encode())
        children = getattr(n, 'children', None)
        if children is None:
            h.update(('%r|%r' % (getattr(n, 'value', ''), getattr(n, 'prefix', ''))).encode('utf-8', 'replace'))
        else:
            for c in children:
                rec(c)
    rec(node)
    return h.hexdigest()
