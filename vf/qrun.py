"""Fresh-process query runner: reads a job (JSON) on argv[1], prints normal forms as JSON.

Used as the "fresh interpreter" oracle (C08, C09) and as the varied-process arm of C16:
PYTHONHASHSEED comes from the environment; `perturb` allocates and partly frees a seeded
amount of junk before jedi is imported and again before the queries, which moves object
addresses and hence the iteration order of identity-hashed sets."""
import json
import random
import sys


def junk(n, seed):
    rnd = random.Random(seed)
    keep = []
    for i in range(n):
        o = [object() for _ in range(rnd.randint(1, 5))]
        if rnd.random() < 0.5:
            keep.append(o)
    return keep


def main():
    job = json.load(open(sys.argv[1]))
    k1 = junk(job.get('perturb', 0), 1)
    from vf import boot  # noqa: F401
    import jedi
    from vf import norm
    k2 = junk(job.get('perturb', 0) // 2, 2)
    del k1[::2]
    project = None
    if job.get('project'):
        project = jedi.Project(**job['project'])
    roots = [tuple(r) for r in job.get('roots', [])]
    text = job['text']
    if text is None and job.get('path'):
        with open(job['path']) as f:
            text = f.read()
    script = jedi.Script(text, path=job.get('path'), project=project)
    out = []
    for q in job['queries']:
        out.append(norm.run_query(script, q[0], q[1], q[2], roots))
    extra = {}
    if job.get('dump_tree'):
        from vf.treedump import dump
        extra['tree'] = dump(script._module_node)
    json.dump({'answers': out, 'extra': extra, 'keep': len(k2)}, sys.stdout, default=str)


if __name__ == '__main__':
    main()
