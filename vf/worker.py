"""Worker process: runs a shard of cases of one property, one JSON line per case."""
import faulthandler
import importlib
import json
import os
import sys
import time
import traceback

faulthandler.enable()


def main():
    prop, shard_file, out_file = sys.argv[1:4]
    from vf import boot  # noqa: F401  (tree under test, typeshed, private cache)
    mod = importlib.import_module('vf.props.' + prop.lower())
    with open(shard_file) as f:
        specs = json.load(f)
    budget = float(os.environ.get('VERIF_SHARD_SECONDS', '0') or 0)
    t0 = time.time()
    if hasattr(mod, 'worker_init'):
        mod.worker_init()
    with open(out_file, 'a') as out:
        for spec in specs:
            t_case = time.time()
            if budget and time.time() - t0 > budget:
                res = {'id': spec['id'], 'inconclusive': ['shard time budget spent'],
                       'events': {}, 'violations': []}
            else:
                try:
                    res = mod.run(spec)
                except BaseException as e:  # harness failure, not a verdict
                    if isinstance(e, KeyboardInterrupt):
                        raise
                    res = {'id': spec['id'], 'events': {}, 'violations': [],
                           'inconclusive': ['harness error: %s' % type(e).__name__],
                           'harness_error': traceback.format_exc()[-3000:]}
                    sys.stderr.write('harness error in case %s\n%s\n'
                                     % (spec['id'], traceback.format_exc()))
            res.setdefault('id', spec['id'])
            res['wall_s'] = round(time.time() - t_case, 2)
            out.write(json.dumps(res, default=str) + '\n')
            out.flush()
    if hasattr(mod, 'worker_exit'):
        mod.worker_exit()


if __name__ == '__main__':
    main()
