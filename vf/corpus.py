"""Input corpus: real files from the tree under test and the standard library."""
import os
import pathlib
import sysconfig

from vf.boot import REPO

_STDLIB_SAMPLE = ['textwrap.py', 'string.py', 'bisect.py', 'heapq.py', 'colorsys.py',
                  'fnmatch.py', 'glob.py', 'shlex.py', 'copy.py', 'abc.py', 'queue.py',
                  'contextlib.py', 'functools.py', 'dataclasses.py', 'enum.py',
                  'json/decoder.py', 'json/encoder.py', 'collections/__init__.py',
                  'argparse.py', 'ast.py', 'types.py', 'operator.py', 'keyword.py',
                  'tokenize.py', 'sched.py', 'statistics.py', 'fractions.py', 'graphlib.py']


def files(kinds=('jedi', 'completion', 'refactor', 'static', 'examples', 'stdlib')):
    out = []
    if 'jedi' in kinds:
        out += sorted(p for p in (REPO / 'jedi').rglob('*.py')
                      if 'third_party' not in p.parts)
    if 'completion' in kinds:
        out += sorted((REPO / 'test' / 'completion').glob('*.py'))
    if 'refactor' in kinds:
        out += sorted((REPO / 'test' / 'refactor').glob('*.py'))
    if 'static' in kinds:
        out += sorted((REPO / 'test' / 'static_analysis').glob('*.py'))
    if 'examples' in kinds:
        out += sorted(p for p in (REPO / 'test' / 'examples').rglob('*.py'))[:60]
    if 'stdlib' in kinds:
        std = pathlib.Path(sysconfig.get_paths()['stdlib'])
        out += [std / n for n in _STDLIB_SAMPLE if (std / n).exists()]
    return [p for p in out if p.is_file()]


def read(path):
    with open(path, 'rb') as f:
        data = f.read()
    try:
        return data.decode('utf-8')
    except UnicodeDecodeError:
        return data.decode('latin-1')


def fragment(text, rnd, max_lines=120):
    """A window of whole top-level lines (keeps queries fast on 1000-line files)."""
    lines = text.splitlines(keepends=True)
    if len(lines) <= max_lines:
        return text
    # start at a line with zero indentation
    starts = [i for i, l in enumerate(lines) if l[:1] not in (' ', '\t', '\n', '\r', '#', '')]
    start = rnd.choice(starts) if starts else 0
    return ''.join(lines[start:start + max_lines])
