"""Imported by Python's own start-up in jedi's helper process (the harness sets
PYTHONPATH to this directory).  Only when VERIF_HELPER_AUDIT names a log file: install an
audit hook that appends import/exec/compile/open events with the pid."""
import os
import sys

_log = os.environ.get('VERIF_HELPER_AUDIT')
if _log:
    _pid = os.getpid()

    def _hook(event, args):
        if event in ('import', 'exec', 'compile', 'open', 'os.chdir', 'os.putenv'):
            try:
                if event == 'import':
                    what = '%s|%s' % (args[0], args[1])
                elif event == 'exec':
                    what = getattr(args[0], 'co_filename', '?')
                elif event == 'compile':
                    what = str(args[1])
                else:
                    what = str(args[0])
                with open(_log, 'a') as f:
                    f.write('%d\t%s\t%s\n' % (_pid, event, what))
            except Exception:
                pass

    sys.addaudithook(_hook)
