"""Imported by Python's own start-up in jedi's helper process (the harness sets
PYTHONPATH to this directory).  Only when VERIF_HELPER_AUDIT names a log file: install an
audit hook that appends import/exec/compile events (with pid and file) to it."""
import os
import sys

_log = os.environ.get('VERIF_HELPER_AUDIT')
if _log:
    _pid = os.getpid()
    _f = open(_log, 'a', buffering=1)
    _WANTED = frozenset(('import', 'exec', 'compile', 'os.chdir', 'os.putenv'))

    def _hook(event, args):
        if event not in _WANTED:
            return
        try:
            if event == 'import':
                if not args[1]:
                    return
                what = '%s|%s' % (args[0], args[1])
            elif event == 'exec':
                what = getattr(args[0], 'co_filename', '?')
                if what.startswith('<frozen'):
                    return
                # who asked for it: the innermost frame outside importlib
                f = sys._getframe(1)
                while f is not None and 'importlib' in f.f_code.co_filename:
                    f = f.f_back
                if f is not None:
                    what = '%s\t%s\t%s' % (what, f.f_code.co_filename, f.f_code.co_name)
            elif event == 'compile':
                what = str(args[1])
            else:
                what = str(args[0])
            _f.write('%d\t%s\t%s\n' % (_pid, event, what))
        except Exception:
            pass

    sys.addaudithook(_hook)
