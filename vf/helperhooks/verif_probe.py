"""Picklable probe functions executed inside jedi's helper process through its own
request channel (CompiledSubprocess._send(None, fn)).  Importable there because the harness
puts this directory on PYTHONPATH before the first helper is spawned."""
import os
import sys


def snapshot(*a, **k):
    f = sys._getframe()
    n = None
    while f is not None:
        s = f.f_locals.get('self')
        if s is not None and type(s).__name__ == 'Listener':
            n = len(s._inference_states)
            break
        f = f.f_back
    return {'pid': os.getpid(), 'states': n, 'fds': len(os.listdir('/proc/self/fd')),
            'modules': sorted(sys.modules), 'cwd': os.getcwd(), 'path': list(sys.path)}


def die(*a, **k):
    os._exit(3)


def raise_(*a, **k):
    raise RuntimeError('injected by verif_probe')
