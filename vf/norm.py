"""Fixed normal forms of API results, used by every cross-process / cross-history comparison."""
import os


def _rel(p, roots):
    if p is None:
        return None
    p = str(p)
    for tag, root in roots:
        if root and p.startswith(root):
            return tag + p[len(root):]
    return p


def norm_name(n, roots=()):
    from jedi.api import classes
    d = {'cls': type(n).__name__}
    for a in ('name', 'type', 'line', 'column', 'full_name', 'description'):
        try:
            d[a] = getattr(n, a)
        except Exception as e:  # the exception contract is C01's business
            d[a] = 'EXC:' + type(e).__name__
    try:
        d['module_path'] = _rel(n.module_path, roots)
    except Exception as e:
        d['module_path'] = 'EXC:' + type(e).__name__
    if isinstance(n, classes.Completion):
        d['complete'] = n.complete
        d['name_with_symbols'] = n.name_with_symbols
        d['prefix_len'] = n.get_completion_prefix_length()
    else:
        try:
            d['is_definition'] = n.is_definition()
            d['start'] = n.get_definition_start_position()
            d['end'] = n.get_definition_end_position()
        except Exception as e:
            d['is_definition'] = 'EXC:' + type(e).__name__
    if isinstance(n, classes.BaseSignature):
        try:
            d['to_string'] = n.to_string()
            d['params'] = [(p.name, str(p.kind), p.to_string()) for p in n.params]
        except Exception as e:
            d['to_string'] = 'EXC:' + type(e).__name__
    if isinstance(n, classes.Signature):
        d['index'] = n.index
        d['bracket_start'] = n.bracket_start
    return d


def norm_result(r, roots=()):
    if r is None:
        return None
    if isinstance(r, (list, tuple)):
        return [norm_result(x, roots) for x in r]
    from jedi.api import classes
    if isinstance(r, classes.BaseName):
        return norm_name(r, roots)
    if hasattr(r, 'get_message'):
        return {'cls': 'SyntaxError', 'line': r.line, 'column': r.column,
                'until_line': r.until_line, 'until_column': r.until_column,
                'msg': r.get_message()}
    return repr(r)


UNORDERED = {'goto', 'goto_follow', 'help'}


def canon(method, nf):
    """Comparison key: ordered list, except goto/help (order unspecified) as sorted sets."""
    import json
    if isinstance(nf, list) and method in UNORDERED:
        return sorted({json.dumps(x, sort_keys=True, default=str) for x in nf})
    return json.dumps(nf, sort_keys=True, default=str)


def run_query(script, method, line, col, roots=()):
    import jedi
    fn = {
        'complete': lambda: script.complete(line, col),
        'complete_fuzzy': lambda: script.complete(line, col, fuzzy=True),
        'infer': lambda: script.infer(line, col),
        'goto': lambda: script.goto(line, col),
        'goto_follow': lambda: script.goto(line, col, follow_imports=True),
        'help': lambda: script.help(line, col),
        'get_references': lambda: script.get_references(line, col),
        'get_references_file': lambda: script.get_references(line, col, scope='file'),
        'get_signatures': lambda: script.get_signatures(line, col),
        'get_context': lambda: script.get_context(line, col),
        'get_names': lambda: script.get_names(all_scopes=True, definitions=True, references=True),
        'get_syntax_errors': lambda: script.get_syntax_errors(),
        'search': lambda: list(script.search(str(line))),   # line carries the string
        'project_search': lambda: list(script._inference_state.project.search(str(line))),
        'project_complete_search': lambda: list(script._inference_state.project.complete_search(str(line))),
        'rename': lambda: sorted(_rel(p, roots) for p in
                                 script.rename(line, col, new_name='zz_new').get_changed_files()),
    }[method]
    try:
        return {'ok': norm_result(fn(), roots)}
    except jedi.RefactoringError as e:
        return {'refused': str(e)[:80]}
    except Exception as e:
        return {'exc': type(e).__name__}
