"""Deterministic work counter and budget enforcer built on sys.monitoring (3.12).

Counts Python function entries (PY_START) between `begin()` and `end()`.  The count
does not depend on machine load, which is why verdicts about "bounded work" (C15)
and the runaway guard of every other workload are taken from it and never from the
wall clock.  When the budget is exceeded the callback first switches its own events
off and then raises, so the exception is not re-raised inside jedi's handlers.
"""
import sys

TOOL = 4
DEFAULT_BUDGET = 300_000_000


class WorkBudgetExceeded(BaseException):
    """BaseException on purpose: jedi's `except Exception` must not swallow it."""


class WorkCounter:
    def __init__(self):
        self.count = 0
        self.budget = DEFAULT_BUDGET
        self.active = False
        self.tripped = False
        self._installed = False

    def install(self):
        if self._installed:
            return
        mon = sys.monitoring
        try:
            mon.use_tool_id(TOOL, 'verif-work')
        except ValueError:
            pass
        mon.register_callback(TOOL, mon.events.PY_START, self._on_start)
        self._installed = True

    def _on_start(self, code, offset):
        self.count += 1
        if self.count > self.budget:
            # Never raise at the entry of jedi's own bookkeeping (recursion detector, memoising
            # wrappers): an exception there is an asynchronous one that no try/finally in the
            # code under test could be expected to survive; the next ordinary function gets it.
            fn = code.co_filename
            if fn.endswith(('recursion.py', 'inference/cache.py', 'jedi/cache.py', 'contextlib.py')):
                return
            # disarm first, so that the exception is not raised again inside handlers
            self.tripped = True
            self.budget = float('inf')
            raise WorkBudgetExceeded(self.count)

    def begin(self, budget=None):
        self.install()
        self.count = 0
        self.tripped = False
        self.budget = budget or DEFAULT_BUDGET
        if not self.active:
            # Events stay switched on for the life of the process: toggling them per call
            # re-instruments every code object and dominated the run time.
            self.active = True
            sys.monitoring.set_events(TOOL, sys.monitoring.events.PY_START)

    def end(self):
        self.budget = float('inf')
        return self.count


COUNTER = WorkCounter()


class measure:
    """with measure(budget) as m: ...; m.work is the number of function entries."""

    def __init__(self, budget=None):
        self.budget = budget
        self.work = 0

    def __enter__(self):
        COUNTER.begin(self.budget)
        return self

    def __exit__(self, *exc):
        self.work = COUNTER.end()
        return False
