"""Fill a parso cache directory with the typeshed/stdlib pickles every process needs."""
import os
from vf import boot  # noqa: F401
import jedi

SRC = '''import os, sys, typing, collections, functools, re, json, pathlib, itertools
os.path.join
sys.path
typing.List
collections.OrderedDict
functools.wraps
x = [1, "a", 2.0, (1,), {1: 2}, {1}]
x[0].real
"".join
def f(a: int = 3) -> str: pass
f(
'''
s = jedi.Script(SRC, path=os.path.join(os.environ['VERIF_RUN_DIR'], 'warm.py'))
lines = SRC.splitlines()
for i, line in enumerate(lines, 1):
    try:
        s.complete(i, len(line))
        s.infer(i, max(0, len(line) - 1))
        s.get_signatures(i, len(line))
    except Exception as e:  # warm-up only
        print('warm-up', i, type(e).__name__, e)
print('warm', len(os.listdir(jedi.settings.cache_directory)))
