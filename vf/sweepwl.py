"""The shared "API sweep" workload: one text x positions x every Script query method,
every returned object swept by apimon.  Used by C01 (exception contract deciding),
C04 (completion algebra deciding), C17 (position monitor deciding) and C16."""
import re

import jedi

from vf import apimon, mutate

ALL_METHODS = ['complete', 'complete_fuzzy', 'infer', 'infer_stubs', 'goto', 'goto_follow',
               'help', 'get_references', 'get_references_file', 'get_signatures',
               'get_context', 'get_names', 'search', 'complete_search', 'get_syntax_errors']

_WORD = re.compile(r'[^\W\d]\w*')


def fragment_before(code, line, column):
    """Identifier fragment in front of the cursor if the stdlib tokenizer says the cursor is
    inside/at the end of a NAME token in code (not string/comment/number); else None."""
    if any(ch in code for ch in '\r\x0b\x0c\x1c\x1d\x1e\x85\u2028\u2029'):
        # line numbering of the stdlib tokenizer and of parso may differ on such texts: the
        # independent fragment oracle is only used where both agree by construction
        return None
    toks = mutate.ident_tokens(code)
    if toks is None:
        return None
    import io
    import tokenize
    try:
        all_toks = list(tokenize.generate_tokens(io.StringIO(code).readline))
    except Exception:
        return None
    for t in all_toks:
        if t.start[0] == t.end[0] == line and t.start[1] < column <= t.end[1]:
            if t.type == tokenize.NAME and t.string.isidentifier():
                return t.string[:column - t.start[1]]
            return None  # inside some other token: not claimed
        if t.type in (tokenize.STRING, tokenize.COMMENT) or getattr(tokenize, 'FSTRING_START', -1) == t.type:
            if t.start <= (line, column) <= t.end:
                return None
    return None


def run_text(rec, code, path, positions, methods=ALL_METHODS, outside=(), project=None,
             monitors=(apimon.position_monitor,), deep=True, witness=None, cap=40,
             check_fragment=True, extra_texts=None):
    w = dict(witness or {})
    w['path'] = str(path)
    ok, script = apimon.call(rec, 'Script', jedi.Script, code, path=path, project=project,
                             witness=w)
    if not ok:
        return None
    texts = {str(path): code}
    texts.update(extra_texts or {})     # other project files results may point into

    def text_of(p):
        if p is None:
            return None
        return texts.get(str(p))

    def sw(objs, fam, ww):
        apimon.sweep(rec, objs, fam, ww, monitors=monitors, cap=cap, deep=deep, text_of=text_of)

    # position-free methods
    if 'get_names' in methods:
        for kw in ({}, {'all_scopes': True, 'definitions': True, 'references': True},
                   {'all_scopes': True, 'definitions': False, 'references': True}):
            ok, r = apimon.call(rec, 'get_names', script.get_names, witness=dict(w, kwargs=kw), **kw)
            if ok:
                sw(r, 'get_names', dict(w, kwargs=kw))
    if 'get_syntax_errors' in methods:
        ok, r = apimon.call(rec, 'get_syntax_errors', script.get_syntax_errors, witness=w)
        if ok:
            sw(r, 'get_syntax_errors', w)
    words = _WORD.findall(code)[:400]
    if 'search' in methods and words:
        for wd in sorted(set(words), key=words.index)[:3]:
            ok, r = apimon.call(rec, 'search', lambda: list(script.search(wd)),
                                witness=dict(w, string=wd))
            if ok:
                sw(r, 'search', dict(w, string=wd))
            ok, r = apimon.call(rec, 'search', lambda: list(script.search(wd, all_scopes=True)),
                                witness=dict(w, string=wd))
    if 'complete_search' in methods and words:
        for wd in sorted(set(words), key=words.index)[:2]:
            pre = wd[:max(1, len(wd) // 2)]
            ok, r = apimon.call(rec, 'complete_search',
                                lambda: list(script.complete_search(pre)),
                                witness=dict(w, string=pre))
            if ok:
                sw(r, 'complete_search', dict(w, string=pre))

    posm = {
        'complete': lambda l, c: script.complete(l, c),
        'complete_fuzzy': lambda l, c: script.complete(l, c, fuzzy=True),
        'infer': lambda l, c: script.infer(l, c),
        'infer_stubs': lambda l, c: script.infer(l, c, prefer_stubs=True),
        'goto': lambda l, c: script.goto(l, c),
        'goto_follow': lambda l, c: script.goto(l, c, follow_imports=True,
                                                follow_builtin_imports=True),
        'help': lambda l, c: script.help(l, c),
        'get_references': lambda l, c: script.get_references(l, c),
        'get_references_file': lambda l, c: script.get_references(l, c, scope='file'),
        'get_signatures': lambda l, c: script.get_signatures(l, c),
        'get_context': lambda l, c: script.get_context(l, c),
    }
    for (line, col) in positions:
        for m in methods:
            fn = posm.get(m)
            if fn is None:
                continue
            ww = dict(w, method=m, pos=[line, col])
            ok, r = apimon.call(rec, m, fn, line, col, witness=ww)
            if not ok:
                continue
            if m.startswith('complete'):
                frag = fragment_before(code, line, col) if check_fragment else None
                apimon.completion_algebra(rec, r, code, line, col, m == 'complete_fuzzy', ww,
                                          expected_fragment=frag)
            sw(r, m, ww)
    for (line, col) in outside:
        for m in methods:
            fn = posm.get(m)
            if fn is None:
                continue
            assert not apimon.position_in_range(code, line, col)
            apimon.call(rec, m, fn, line, col, expect_valueerror=True,
                        witness=dict(w, method=m, pos=[line, col], outside=True))
    return script
