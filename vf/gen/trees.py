"""Generated project trees for the import-resolution properties (C09, C10).

Every file's content is known to the harness: line 1 `MARK = "<root>/<relpath>"` (unique), then
optional attributes named like sibling modules (attribute vs sub-module precedence), each with a
unique string value that names the defining file."""
import os

NAMES = ['aa', 'bb', 'cc']
# sub-module / sub-package names that are also standard-library modules which CPython ships frozen
# (never used at the top level of a root, where the frozen module really wins)
STDLIB_NAMES = ['io', 'abc', 'stat', 'site', 'codecs']


def build_root(rnd, root, label, depth=0, max_depth=3, prefix=''):
    """Populate directory `root`. Returns {relpath: text} written."""
    files = {}
    names = list(NAMES)
    if depth >= 1 and rnd.random() < 0.4:
        names.append(rnd.choice(STDLIB_NAMES))
    for nm in names:
        c = rnd.random()
        rel_mod = prefix + nm + '.py'
        if c < 0.32:
            files[rel_mod] = _module_text(rnd, label, rel_mod)
        if 0.22 < c < 0.80 and depth < max_depth:
            d = prefix + nm + '/'
            kind = rnd.random()
            if kind < 0.6:
                files[d + '__init__.py'] = _module_text(rnd, label, d + '__init__.py', init=True)
            sub = build_root(rnd, root, label, depth + 1, max_depth, d)
            if not sub and kind >= 0.6:
                sub = {d + 'leaf.py': _module_text(rnd, label, d + 'leaf.py')}
            files.update(sub)
            init = d + '__init__.py'
            if init in files and rnd.random() < 0.45:
                # the package re-exports one of its own sub-modules with a relative from-import
                # (only an existing child, so importing the package cannot fail)
                children = sorted({rel[len(d):].split('/')[0].replace('.py', '')
                                   for rel in sub if rel.startswith(d)} - {'__init__'})
                # (not a name the __init__ also assigns: `from . import x` then binds that
                # attribute, not the sub-module -- the attribute/sub-module clash is probed by
                # the plain attribute lines already)
                children = [c for c in children if ('\n%s = ' % c) not in files[init]]
                if children:
                    files[init] += 'from . import %s\n' % rnd.choice(children)
    if depth == 0:
        for rel, text in files.items():
            p = os.path.join(root, rel)
            os.makedirs(os.path.dirname(p), exist_ok=True)
            with open(p, 'w') as f:
                f.write(text)
    return files


def _module_text(rnd, label, rel, init=False):
    lines = ['MARK = "%s/%s"' % (label, rel)]
    for nm in NAMES:
        if rnd.random() < (0.25 if init else 0.12):
            lines.append('%s = "attr:%s/%s"' % (nm, label, rel))
    lines.append('def fn_%s(): pass' % rel.replace('/', '_').replace('.py', '').replace('.', '_'))
    return '\n'.join(lines) + '\n'


def dirs_of(files):
    out = set()
    for rel in files:
        parts = rel.split('/')[:-1]
        for i in range(1, len(parts) + 1):
            out.add('/'.join(parts[:i]))
    return sorted(out)
