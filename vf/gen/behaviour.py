"""Behavioural programs for C05/C06/C07: executable programs whose observable behaviour is a
trace of integers and fixed strings that never contains an identifier spelling, so renaming
any identifier must leave the trace bit-identical.

Identifiers carry their *role* in a prefix (the generator's bookkeeping, used to select rename
targets and to attribute failures to listed mechanisms):
  var_ plain variable      par_ parameter (positional / same-module keyword)   fn_ function
  cls_ class               attr_ attribute   meth_ method   mod_ module imported without alias
  alias_ import alias (R1) nl_ variable rebound through nonlocal (R2)
  cv_ comprehension variable used in its filter (R3)
  kwpar_ parameter passed by keyword from another module (R4)
  rx_ name re-exported by a package __init__ and reached as pkg.name (R5)
  pkg_ package (directory)
"""

ROLE_PREFIXES = ['var_', 'par_', 'fn_', 'cls_', 'attr_', 'meth_', 'mod_', 'alias_', 'nl_', 'cv_',
                 'kwpar_', 'rx_', 'pkg_']
LISTED_ROLES = {'alias_': 'R1_import_alias', 'nl_': 'R2_nonlocal_rebound',
                'cv_': 'R3_comprehension_variable_in_filter',
                'kwpar_': 'R4_keyword_passed_parameter_across_modules',
                'rx_': 'R5_reexported_name'}


def role_of(name):
    for p in ROLE_PREFIXES:
        if name.startswith(p):
            return p
    return None


# Every unit returns (main_lines, {other file: text}).  {n} is a unique serial.

def u_function(n, r):
    return ['def fn_add{n}(par_a{n}, par_b{n}=2):',
            '    var_t{n} = par_a{n} + par_b{n}',
            '    return var_t{n} * 2',
            'print(fn_add{n}(1), fn_add{n}(3, 4), fn_add{n}(par_a{n}=5), fn_add{n}(6, par_b{n}=7))'], {}


def u_class(n, r):
    return ['class cls_K{n}:',
            '    attr_c{n} = 10',
            '    def __init__(self, par_v{n}):',
            '        self.attr_v{n} = par_v{n}',
            '    def meth_get{n}(self):',
            '        return self.attr_v{n} + self.attr_c{n}',
            '    def meth_twice{n}(self):',
            '        return self.meth_get{n}() * 2',
            'var_o{n} = cls_K{n}(3)',
            'print(var_o{n}.meth_get{n}(), var_o{n}.meth_twice{n}(), var_o{n}.attr_v{n}, cls_K{n}.attr_c{n})'], {}


def u_inherit(n, r):
    return ['class cls_Base{n}:',
            '    def __init__(self, par_x{n}):',
            '        self.attr_x{n} = par_x{n}',
            '    def meth_val{n}(self):',
            '        return self.attr_x{n}',
            'class cls_Sub{n}(cls_Base{n}):',
            '    def __init__(self, par_x{n}, par_y{n}):',
            '        super().__init__(par_x{n})',
            '        self.attr_y{n} = par_y{n}',
            '    def meth_sum{n}(self):',
            '        return self.meth_val{n}() + self.attr_y{n}',
            'var_s{n} = cls_Sub{n}(4, 5)',
            'print(var_s{n}.meth_sum{n}(), var_s{n}.meth_val{n}(), isinstance(var_s{n}, cls_Base{n}))'], {}


def u_closure_nonlocal(n, r):
    return ['def fn_counter{n}():',
            '    nl_count{n} = 0',
            '    def fn_inc{n}():',
            '        nonlocal nl_count{n}',
            '        nl_count{n} = nl_count{n} + 1',
            '        return nl_count{n}',
            '    return fn_inc{n}',
            'var_c{n} = fn_counter{n}()',
            'print(var_c{n}(), var_c{n}(), var_c{n}())'], {}


def u_closure(n, r):
    return ['def fn_make{n}(par_k{n}):',
            '    def fn_inner{n}(par_z{n}):',
            '        return par_z{n} * par_k{n}',
            '    return fn_inner{n}',
            'var_m{n} = fn_make{n}(3)',
            'print(var_m{n}(2), var_m{n}(5))'], {}


def u_comp_filter(n, r):
    return ['var_src{n} = [1, 2, 3, 4, 5, 6]',
            'var_ev{n} = [cv_e{n} * 2 for cv_e{n} in var_src{n} if cv_e{n} % 2 == 0]',
            'print(var_ev{n}, len(var_ev{n}))'], {}


def u_comp(n, r):
    return ['var_q{n} = [var_i{n} + 1 for var_i{n} in range(4)]',
            'var_d{n} = {var_k{n}: var_k{n} * var_k{n} for var_k{n} in (1, 2, 3)}',
            'print(var_q{n}, sorted(var_d{n}.items()))'], {}


def u_loop(n, r):
    return ['var_acc{n} = 0',
            'for var_j{n} in range(5):',
            '    if var_j{n} % 2:',
            '        var_acc{n} += var_j{n}',
            '    else:',
            '        var_acc{n} -= 1',
            'print(var_acc{n})'], {}


def u_try(n, r):
    return ['class cls_Err{n}(Exception):',
            '    pass',
            'def fn_risky{n}(par_f{n}):',
            '    if par_f{n} > 2:',
            '        raise cls_Err{n}(par_f{n})',
            '    return par_f{n}',
            'for var_n{n} in (1, 3):',
            '    try:',
            '        print(fn_risky{n}(var_n{n}))',
            '    except cls_Err{n} as var_e{n}:',
            '        print("caught", var_e{n}.args[0])'], {}


def u_lambda(n, r):
    return ['var_f{n} = lambda par_l{n}, par_m{n}=1: par_l{n} - par_m{n}',
            'print(var_f{n}(5), var_f{n}(5, 2), list(map(var_f{n}, [7, 8])))'], {}


def u_generator(n, r):
    return ['def fn_gen{n}(par_n{n}):',
            '    var_cur{n} = 0',
            '    while var_cur{n} < par_n{n}:',
            '        yield var_cur{n} * 3',
            '        var_cur{n} += 1',
            'print(list(fn_gen{n}(4)), sum(fn_gen{n}(3)))'], {}


def u_decorator(n, r):
    return ['def fn_deco{n}(par_fn{n}):',
            '    def fn_wrap{n}(*par_args{n}):',
            '        return par_fn{n}(*par_args{n}) + 100',
            '    return fn_wrap{n}',
            '@fn_deco{n}',
            'def fn_base{n}(par_u{n}):',
            '    return par_u{n} * 2',
            'print(fn_base{n}(4))'], {}


def u_property(n, r):
    return ['class cls_P{n}:',
            '    def __init__(self):',
            '        self.attr_raw{n} = 6',
            '    @property',
            '    def meth_prop{n}(self):',
            '        return self.attr_raw{n} * 7',
            '    @staticmethod',
            '    def meth_st{n}(par_s{n}):',
            '        return par_s{n} + 1',
            '    @classmethod',
            '    def meth_cl{n}(cls):',
            '        return cls().meth_prop{n}',
            'print(cls_P{n}().meth_prop{n}, cls_P{n}.meth_st{n}(1), cls_P{n}.meth_cl{n}())'], {}


def u_global(n, r):
    return ['var_g{n} = 1',
            'def fn_bump{n}():',
            '    global var_g{n}',
            '    var_g{n} = var_g{n} + 10',
            '    return var_g{n}',
            'print(fn_bump{n}(), fn_bump{n}(), var_g{n})'], {}


def u_with(n, r):
    return ['class cls_CM{n}:',
            '    def __enter__(self):',
            '        return 42',
            '    def __exit__(self, *par_exc{n}):',
            '        return False',
            'with cls_CM{n}() as var_w{n}:',
            '    print(var_w{n} + 1)'], {}


def u_starargs(n, r):
    return ['def fn_var{n}(par_first{n}, *par_rest{n}, **par_kw{n}):',
            '    return par_first{n} + sum(par_rest{n}) + sum(par_kw{n}.values())',
            'print(fn_var{n}(1), fn_var{n}(1, 2, 3), fn_var{n}(1, x=5))'], {}


def u_dicts(n, r):
    return ['var_dd{n} = {"a": 1, "b": 2}',
            'var_ll{n} = [3, 1, 2]',
            'var_ll{n}.append(var_dd{n}["b"])',
            'var_dd{n}["c"] = sorted(var_ll{n})[0]',
            'print(sorted(var_dd{n}.items()), var_ll{n})'], {}


def u_walrus_while(n, r):
    return ['var_stack{n} = [5, 4, 3]',
            'var_out{n} = []',
            'while var_stack{n}:',
            '    if (var_top{n} := var_stack{n}.pop()) > 3:',
            '        var_out{n}.append(var_top{n})',
            'print(var_out{n})'], {}


def u_method_chain(n, r):
    return ['class cls_B{n}:',
            '    def __init__(self):',
            '        self.attr_items{n} = []',
            '    def meth_add{n}(self, par_it{n}):',
            '        self.attr_items{n}.append(par_it{n})',
            '        return self',
            '    def meth_total{n}(self):',
            '        return sum(self.attr_items{n})',
            'print(cls_B{n}().meth_add{n}(1).meth_add{n}(2).meth_total{n}())'], {}


def u_rebind_if(n, r):
    return ['def fn_clamp{n}(par_amt{n}):',
            '    if par_amt{n} > 3:',
            '        par_amt{n} = 3',
            '        print(par_amt{n} + 100)',
            '    return par_amt{n}',
            'print(fn_clamp{n}(5), fn_clamp{n}(1))'], {}


def u_rebind_try(n, r):
    return ['def fn_conv{n}(par_raw{n}):',
            '    try:',
            '        par_raw{n} = int(par_raw{n})',
            '        print(par_raw{n} * 2)',
            '    except ValueError:',
            '        par_raw{n} = -1',
            '    return par_raw{n}',
            'print(fn_conv{n}("21"), fn_conv{n}("x"))'], {}


def u_rebind_while(n, r):
    return ['def fn_halve{n}(par_num{n}, var_steps{n}=0):',
            '    while par_num{n} > 1:',
            '        par_num{n} = par_num{n} // 2',
            '        var_steps{n} = var_steps{n} + par_num{n}',
            '    return par_num{n} + var_steps{n}',
            'print(fn_halve{n}(9), fn_halve{n}(1))'], {}


def u_arith(n, r):
    # single-assignment variables whose values sit at the same precedence level as their uses
    return ['def fn_calc{n}(par_a{n}, par_b{n}, par_c{n}):',
            '    var_d{n} = par_a{n} - par_b{n}',
            '    var_q{n} = par_a{n} // par_b{n}',
            '    var_p{n} = par_a{n} ** 2',
            '    var_lt{n} = par_a{n} < par_b{n}',
            '    var_m{n} = par_a{n} % par_b{n}',
            '    var_o{n} = par_a{n} or par_b{n}',
            '    var_r1{n} = par_c{n} - var_d{n}',
            '    var_r2{n} = par_c{n} * var_q{n}',
            '    var_r3{n} = var_p{n} ** 2',
            '    var_r4{n} = par_c{n} == var_lt{n}',
            '    var_r5{n} = par_c{n} / var_m{n}',
            '    var_r6{n} = not var_o{n}',
            '    var_r7{n} = -var_d{n} ** 2',
            '    return [var_r1{n}, var_r2{n}, var_r3{n}, var_r4{n}, var_r5{n}, var_r6{n}, var_r7{n}]',
            'print(fn_calc{n}(7, 2, 10), fn_calc{n}(3, 5, 1))'], {}


def u_mixed_ops(n, r):
    # three and four operand expressions over mixed precedence / non-associative operators: their
    # operand runs (`b + c` in `a * b + c`) are text ranges that are not sub-expressions
    return ['def fn_mix{n}(par_a{n}, par_b{n}, par_c{n}):',
            '    var_m1{n} = par_a{n} - par_b{n} + par_c{n}',
            '    var_m2{n} = par_a{n} * par_b{n} + par_c{n}',
            '    var_m3{n} = par_a{n} - par_b{n} - par_c{n}',
            '    var_m4{n} = par_a{n} < par_b{n} < par_c{n}',
            '    var_m5{n} = par_a{n} // par_b{n} * par_c{n}',
            '    var_m6{n} = par_a{n} + par_b{n} * par_c{n} - par_a{n}',
            '    var_m7{n} = [par_a{n} or par_b{n} and par_c{n}, par_a{n} + par_b{n} + par_c{n}]',
            '    return [var_m1{n}, var_m2{n}, var_m3{n}, var_m4{n}, var_m5{n}, var_m6{n}, var_m7{n}]',
            'print(fn_mix{n}(7, 2, 10), fn_mix{n}(0, 5, 1))'], {}


def u_branch_rebind(n, r):
    # a local rebound on one path only (if / for+if), read on that path right after the rebinding
    # and again after the paths merge: a statement range starting at the if/for needs the variable
    # as an input although its textually first occurrence in the range is a binding
    return ['def fn_br{n}(par_f{n}, par_r{n}):',
            '    var_rate{n} = par_r{n}',
            '    var_lab{n} = 0',
            '    if par_f{n}:',
            '        var_rate{n} = 5',
            '        var_lab{n} = var_rate{n}',
            '    var_tot{n} = var_rate{n} * 2',
            '    var_best{n} = par_r{n}',
            '    var_seen{n} = 0',
            '    for var_k{n} in [1, 9, 4]:',
            '        if var_k{n} > par_f{n} + 5:',
            '            var_best{n} = var_k{n}',
            '            var_seen{n} = var_best{n}',
            '    var_out{n} = var_best{n} - var_seen{n}',
            '    if par_f{n} > 1:',
            '        var_tot{n} = 1',
            '    else:',
            '        var_lab{n} = var_tot{n}',
            '    var_end{n} = var_tot{n} + var_lab{n}',
            '    return [var_lab{n}, var_tot{n}, var_out{n}, var_end{n}]',
            'print(fn_br{n}(1, 3), fn_br{n}(0, 3), fn_br{n}(7, 2))'], {}


def u_accumulate(n, r):
    return ['def fn_stats{n}(par_xs{n}):',
            '    var_total{n} = 0',
            '    var_count{n} = 1',
            '    var_step{n} = 2',
            '    var_total{n} = var_total{n} + var_step{n}',
            '    var_count{n} += var_step{n}',
            '    if var_count{n} > 1:',
            '        var_step{n} = var_step{n} * var_count{n}',
            '    var_low{n} = var_count{n} - var_step{n}',
            '    var_high{n} = var_total{n} * 2',
            '    if var_low{n} < 0:',
            '        var_low{n} = 0',
            '    return [var_total{n}, var_count{n}, var_step{n}, var_low{n}, var_high{n}, len(par_xs{n})]',
            'print(fn_stats{n}([1, 2]))'], {}


# ---- multi-module units

def m_import_module(n, r):
    return ['import mod_lib{n}',
            'print(mod_lib{n}.fn_pub{n}(2), mod_lib{n}.cls_Pub{n}().meth_go{n}(), mod_lib{n}.var_const{n})'], \
        {'mod_lib{n}.py': 'var_const{n} = 7\ndef fn_pub{n}(par_p{n}):\n    return par_p{n} + var_const{n}\n'
                          'class cls_Pub{n}:\n    def meth_go{n}(self):\n        return fn_pub{n}(1)\n'}


def m_from_import(n, r):
    return ['from mod_src{n} import fn_ext{n}, cls_Ext{n}',
            'print(fn_ext{n}(3), cls_Ext{n}(2).meth_dbl{n}())'], \
        {'mod_src{n}.py': 'def fn_ext{n}(par_e{n}):\n    return par_e{n} * 5\n'
                          'class cls_Ext{n}:\n    def __init__(self, par_w{n}):\n        self.attr_w{n} = par_w{n}\n'
                          '    def meth_dbl{n}(self):\n        return self.attr_w{n} * 2\n'}


def m_alias(n, r):
    # everything that takes part in the aliasing carries the alias_ role
    return ['from alias_modal{n} import alias_orig{n} as alias_fo{n}',
            'import alias_modal{n} as alias_mo{n}',
            'print(alias_fo{n}(1), alias_mo{n}.alias_orig{n}(2))'], \
        {'alias_modal{n}.py': 'def alias_orig{n}(par_o{n}):\n    return par_o{n} + 40\n'}


def m_reexport(n, r):
    return ['import pkg_p{n}',
            'from pkg_p{n} import rx_Thing{n}',
            'print(pkg_p{n}.rx_Thing{n}().meth_id{n}(), rx_Thing{n}().meth_id{n}(), pkg_p{n}.mod_sub{n}.rx_helper{n}(1))'], \
        {'pkg_p{n}/__init__.py': 'from .mod_sub{n} import rx_Thing{n}\nfrom . import mod_sub{n}\n',
         'pkg_p{n}/mod_sub{n}.py': 'class rx_Thing{n}:\n    def meth_id{n}(self):\n        return 9\n'
                                  'def rx_helper{n}(par_h{n}):\n    return par_h{n} + 1\n'}


def m_keyword_across(n, r):
    return ['from mod_kw{n} import fn_kw{n}',
            'print(fn_kw{n}(kwpar_z{n}=5), fn_kw{n}(1, kwpar_z{n}=2), fn_kw{n}(3))'], \
        {'mod_kw{n}.py': 'def fn_kw{n}(par_a{n}=0, kwpar_z{n}=1):\n    return par_a{n} * 10 + kwpar_z{n}\n'}


def m_submodule(n, r):
    return ['import pkg_q{n}.mod_deep{n}',
            'from pkg_q{n}.mod_deep{n} import fn_deep{n}',
            'print(pkg_q{n}.mod_deep{n}.fn_deep{n}(2), fn_deep{n}(3))'], \
        {'pkg_q{n}/__init__.py': '',
         'pkg_q{n}/mod_deep{n}.py': 'def fn_deep{n}(par_d{n}):\n    return par_d{n} ** 2\n'}


def m_global_across(n, r):
    return ['import mod_store{n}',
            'print(mod_store{n}.fn_bump{n}(2), mod_store{n}.fn_bump{n}(5), mod_store{n}.var_tally{n})'], \
        {'mod_store{n}.py': 'var_tally{n} = 0\ndef fn_bump{n}(par_n{n}):\n    global var_tally{n}\n'
                            '    var_tally{n} += par_n{n}\n    return var_tally{n}\n'
                            'def fn_reset{n}():\n    global var_tally{n}\n    var_tally{n} = 0\n'}


def m_deep_package(n, r):
    return ['from pkg_d{n}.pkg_sub{n}.mod_deep{n} import fn_deepval{n}',
            'import pkg_d{n}',
            'print(fn_deepval{n}(), pkg_d{n}.var_root{n})'], \
        {'pkg_d{n}/__init__.py': 'var_root{n} = 3\n',
         'pkg_d{n}/pkg_sub{n}/__init__.py': '',
         'pkg_d{n}/pkg_sub{n}/mod_deep{n}.py': 'import pkg_d{n}\ndef fn_deepval{n}():\n'
                                               '    return pkg_d{n}.var_root{n} + 1\n'}


def m_self_mentioning_module(n, r):
    # a module whose text mentions its own name (docstring), imported from the top level and
    # from a module of a sub-package
    return ['import mod_reg{n}',
            'from pkg_w{n} import mod_worker{n}',
            'print(mod_reg{n}.fn_regadd{n}(1), mod_worker{n}.fn_work{n}(), mod_reg{n}.fn_regadd{n}(2))'], \
        {'mod_reg{n}.py': '"""mod_reg{n}: keeps a list."""\nvar_items{n} = [3]\ndef fn_regadd{n}(par_i{n}):\n'
                          '    var_items{n}.append(par_i{n})\n    return len(var_items{n})\n',
         'pkg_w{n}/__init__.py': '',
         'pkg_w{n}/mod_worker{n}.py': 'import mod_reg{n}\ndef fn_work{n}():\n    return mod_reg{n}.fn_regadd{n}(5) * 10\n'}


def u_async_methods(n, r):
    return ['import asyncio',
            'def fn_tag{n}(par_f{n}):',
            '    async def fn_inner{n}(*par_a{n}):',
            "        return ('tag', await par_f{n}(*par_a{n}))",
            '    return fn_inner{n}',
            'class cls_As{n}:',
            '    def __init__(self):',
            '        self.attr_base{n} = 5',
            '    @fn_tag{n}',
            '    async def meth_am{n}(self, par_k{n}):',
            '        var_w{n} = self.attr_base{n} + par_k{n}',
            '        return var_w{n} * 2',
            '    @classmethod',
            '    async def meth_ac{n}(cls, par_c{n}):',
            '        var_z{n} = par_c{n} + 3',
            '        return var_z{n} * 3',
            '    async def meth_plain{n}(self, par_q{n}):',
            '        var_p{n} = par_q{n} * 4',
            '        return var_p{n} + self.attr_base{n}',
            'async def fn_amain{n}():',
            '    var_i{n} = cls_As{n}()',
            '    print(await var_i{n}.meth_am{n}(2), await cls_As{n}.meth_ac{n}(1), await var_i{n}.meth_plain{n}(3))',
            'asyncio.run(fn_amain{n}())'], {}


def u_decorated_methods(n, r):
    return ['def fn_dm{n}(par_g{n}):',
            '    def fn_dw{n}(*par_b{n}):',
            '        return par_g{n}(*par_b{n}) + 1000',
            '    return fn_dw{n}',
            'class cls_D{n}:',
            '    attr_k{n} = 2',
            '    @fn_dm{n}',
            '    def meth_d{n}(self, par_e{n}):',
            '        var_h{n} = par_e{n} * 5',
            '        return var_h{n} - self.attr_k{n}',
            '    @fn_dm{n}',
            '    @fn_dm{n}',
            '    def meth_dd{n}(self, par_j{n}):',
            '        var_y{n} = par_j{n} + self.attr_k{n}',
            '        return var_y{n} * 2',
            '    @classmethod',
            '    @fn_dm{n}',
            '    def meth_cd{n}(cls, par_m{n}):',
            '        var_x{n} = par_m{n} - cls.attr_k{n}',
            '        return var_x{n} * 3',
            'print(cls_D{n}().meth_d{n}(1), cls_D{n}().meth_dd{n}(2), cls_D{n}.meth_cd{n}(7))'], {}


SINGLE = [u_function, u_class, u_inherit, u_closure_nonlocal, u_closure, u_comp_filter, u_comp, u_loop,
          u_try, u_lambda, u_generator, u_decorator, u_property, u_global, u_with, u_starargs, u_dicts,
          u_walrus_while, u_method_chain, u_rebind_if, u_rebind_try, u_rebind_while, u_arith, u_arith, u_accumulate, u_accumulate,
          u_async_methods, u_decorated_methods, u_mixed_ops, u_branch_rebind]
MULTI = [m_import_module, m_from_import, m_alias, m_reexport, m_keyword_across, m_submodule,
         m_global_across, m_deep_package, m_self_mentioning_module]


def generate(rnd, multi=True, nunits=None, in_function=False):
    """Returns {relpath: text}; main.py is the entry point."""
    nunits = nunits or rnd.randint(3, 6)
    pool = SINGLE + (MULTI if multi else [])
    files = {}
    main = []
    for i in range(nunits):
        unit = rnd.choice(pool)
        n = '%d' % (i + 1)
        lines, others = unit(n, rnd)
        lines = [l.replace('{n}', n) for l in lines]
        if in_function and unit in SINGLE and unit is not u_global and rnd.random() < 0.6:
            # wrap the unit into a function body so that extract_function has statement ranges
            lines = ['def fn_unit%s():' % n] + ['    ' + l for l in lines] + ['fn_unit%s()' % n]
        main += lines
        for rel, text in others.items():
            files[rel.replace('{n}', n)] = text.replace('{n}', n)
    files['main.py'] = '\n'.join(main) + '\n'
    return files
