"""Value-flow programs for C02 / C04-completeness: module-level compositions of combinators over
three source classes and builtin literals.  The generator knows, for every probe, which
combinator produced it and whether only one value can reach it (no merging combinator in
its dataflow)."""

LIB = '''import functools
class A:
    def __init__(self, payload=None):
        self.payload = payload
    def get_payload(self):
        return self.payload
    @property
    def prop_payload(self):
        return self.payload
    def me(self):
        return self
    @classmethod
    def make(cls, payload=None):
        return cls(payload)
    @staticmethod
    def smake(payload):
        return A(payload)
    def __call__(self, arg):
        return arg
    def __getitem__(self, key):
        return self.payload
    def __enter__(self):
        return self.payload
    def __exit__(self, *exc):
        return False
    def __iter__(self):
        yield self.payload
    def late(self):
        self.late_attr = 3
class B(A):
    b_attr = 'b'
    def only_b(self):
        return self.payload
class C:
    cattr = 1.5
    def __init__(self):
        self.own = 'text'
    def c_method(self):
        return self
class Rd:
    def read(self):
        return 'r'
class Wr:
    write_mode = 'w'
    def __init__(self):
        self.written = 0
    def write(self):
        return self.written
class Stm(Rd, Wr):
    def both(self):
        return self
class Lg:
    def log(self):
        return 1
class LgStm(Lg, Stm):
    def ls_only(self):
        return self
class Scratch:
    pass
class Nd:
    kind = 'n'
    def __init__(self, other=None):
        holder = Scratch()
        holder.last_added = self
        self.label = 'l'
        self.kids = [other]
    def adopt(self, child):
        note = Scratch()
        note.parent_node = self
        self.kids.append(child)
        self.adopted = True
        return self
    def rename(self, label):
        self.label = label
        other = Nd()
        other.copied_from = self
        self.renamed = 1
        return self
class Fb:
    level = 0
    try:
        import json as json_mod
        def dump(self):
            return self.level
    except ImportError:
        def dump(self):
            return None
    if level == 0:
        def load(self):
            return self
    else:
        def load_other(self):
            return None
    for _step in (1, 2):
        def stepper(self):
            return self.level
    with open(__file__) as _fh:
        def from_file(self):
            return self
    def plain(self):
        return self.load()
def ident(p):
    return p
def second(p, q):
    return q
def pair(p, q):
    return p, q
def dflt(p, q=None):
    return p if q is None else q
def star(*args):
    return args[0]
def kwv(**kwargs):
    return kwargs['key']
def kwonly(p, *, key):
    return key
def closure(p):
    def inner():
        return p
    return inner
def gen_two(p, q):
    yield p
    yield q
def gen_loop(p, q):
    for item in (p, q):
        yield item
def relay(p, q):
    for item in gen_loop(p, q):
        yield item
def passthrough(fn):
    @functools.wraps(fn)
    def wrapper(*args, **kwargs):
        return fn(*args, **kwargs)
    return wrapper
@passthrough
def deco_ident(p):
    return p
def plain_deco(fn):
    return fn
@plain_deco
def deco2_ident(p):
    return p
def narrow(p):
    if isinstance(p, B):
        return p
    return None
def annotated(p) -> C:
    return C()
def doc_typed(p):
    """
    :rtype: C
    """
    return C()
'''

ATOMS = ["A()", "B()", "C()", "LgStm()", "Stm()", "Nd()", "Fb()", "1", "'s'", "2.5", "A(1)", "B('t')", "[1, 2]", "{'k': 1}",
         "(1, 's')", "None", "True"]

# (tag, template, merges?)   {v} new variable, {x} {y} inputs, {n} serial
FORMS = [
    ('ident', '{v} = ident({x})', False),
    ('second', '{v} = second({x}, {y})', False),
    ('pair0', '{v} = pair({x}, {y})[0]', False),
    ('pair1', '{v} = pair({x}, {y})[1]', False),
    ('unpack', '_u{n}, {v} = pair({x}, {y})', False),
    ('dflt1', '{v} = dflt({x})', True),
    ('dflt2', '{v} = dflt({x}, {y})', True),
    ('dfltkw', '{v} = dflt({x}, q={y})', True),
    ('star', '{v} = star({x}, {y})', False),
    ('kwv', '{v} = kwv(key={x}, other={y})', False),
    ('kwonly', '{v} = kwonly({x}, key={y})', False),
    ('closure', '{v} = closure({x})()', False),
    ('lambda', '{v} = (lambda p: p)({x})', False),
    ('gen_for', 'for {v} in gen_two({x}, {y}): pass', True),
    ('gen_list', '{v} = list(gen_two({x}, {y}))[0]', True),
    ('gen_next', '{v} = next(gen_two({x}, {y}))', True),
    ('gen_unpack', '_g{n}, {v} = gen_two({x}, {y})', False),
    ('loop_unpack', '{v}, _g{n} = gen_loop({x}, {y})', False),
    ('relay_unpack', '_g{n}, {v} = relay({x}, {y})', False),
    ('star_call', '{v} = second(*gen_loop({x}, {y}))', False),
    ('star_list', '{v} = second(*[{x}, {y}])', False),
    ('mi_method', '{v} = LgStm().both()', False),
    ('mi_attr', '{v} = LgStm().write_mode', False),
    ('deco', '{v} = deco_ident({x})', False),
    ('deco2', '{v} = deco2_ident({x})', False),
    ('narrow', '{v} = narrow({x})', True),
    ('annot', '{v} = annotated({x})', False),
    ('doc', '{v} = doc_typed({x})', False),
    ('attr_init', '{v} = A({x}).payload', False),
    ('attr_sub', '{v} = B({x}).payload', False),
    ('method', '{v} = A({x}).get_payload()', False),
    ('method_inh', '{v} = B({x}).get_payload()', False),
    ('method_sub', '{v} = B({x}).only_b()', False),
    ('prop', '{v} = A({x}).prop_payload', False),
    ('prop_inh', '{v} = B({x}).prop_payload', False),
    ('me', '{v} = B({x}).me()', False),
    ('clsm', '{v} = A.make({x}).payload', False),
    ('clsm_sub', '{v} = B.make({x})', False),
    ('stat', '{v} = A.smake({x}).payload', False),
    ('call', '{v} = A()({x})', False),
    ('getitem', '{v} = A({x})[0]', False),
    ('with', 'with A({x}) as {v}: pass', False),
    ('iter', 'for {v} in A({x}): pass', False),
    ('cattr', '{v} = C().cattr', False),
    ('own', '{v} = C().own', False),
    ('cmeth', '{v} = C().c_method()', False),
    ('list_idx', '{v} = [{x}, {y}][1]', False),
    ('tuple_idx', '{v} = ({x}, {y})[0]', False),
    ('dict_key', "{v} = {{'a': {x}, 'b': {y}}}['b']", False),
    ('nested', "{v} = [({x}, {{'k': {y}}})][0][1]['k']", False),
    ('for_list', 'for {v} in [{x}, {y}]: pass', True),
    ('comp', '{v} = [e for e in [{x}, {y}]][0]', True),
    ('dictcomp', "{v} = {{k: {x} for k in 'ab'}}['a']", False),
    ('ternary', '{v} = {x} if len("ab") > 1 else {y}', True),
    ('append', '_l{n} = []\n_l{n}.append({x})\n{v} = _l{n}[0]', False),
    ('setitem', '_d{n} = {{}}\n_d{n}["k"] = {x}\n{v} = _d{n}["k"]', False),
    ('try', 'try:\n    {v} = {x}\nexcept Exception:\n    {v} = {y}', True),
    ('ifelse', 'if len("ab") > 1:\n    {v} = {x}\nelse:\n    {v} = {y}', True),
    ('ifelif', 'if len("ab") > 1:\n    {v} = {x}\nelif 0:\n    {v} = 1.5\nelse:\n    {v} = {y}', True),
    ('ifelif2', 'if len("ab") > 5:\n    {v} = {x}\nelif len("ab") > 1:\n    {v} = {y}\nelif False:\n    {v} = 1\nelse:\n    {v} = None', True),
    ('while_else', '{v} = {x}\nwhile len("ab") > 5:\n    {v} = {y}\n    break', True),
    ('alias', '{v} = {x}', False),
    ('walrus', '({v} := {x})', False),
    ('aug', '{v} = 1\n{v} += 2', False),
    ('arith', '{v} = 1 + 2 * 3', False),
    ('arith_f', '{v} = 1 / 2', False),
    ('strmeth', "{v} = 'a b'.split()[0]", False),
    ('strfmt', "{v} = 'x%s' % 1", False),
    ('builtin_len', '{v} = len([1])', False),
    ('type_of', '{v} = type(A())', False),
    ('cls_ref', '{v} = B', False),
    ('fn_ref', '{v} = ident', False),
    ('bound', '{v} = A().me', False),
    ('nd_adopt', '{v} = Nd({x}).adopt({y})', False),
    ('nd_rename', '{v} = Nd().rename({x})', False),
    ('nd_both', '{v} = Nd({x}).adopt({y}).rename("t")', False),
    ('nd_flag', '{v} = Nd({x}).adopt({y}).adopted', False),
]

# forms admitted to the "exactly that class and nothing else" clause: calibrated silent on the
# unchanged tree (10 seeds x 200 programs) when all inputs are single-valued.  Every other
# form only carries the "is among the definitions" clause.
EXACT_FORMS = {'ident', 'second', 'pair0', 'pair1', 'unpack', 'kwonly', 'closure', 'lambda', 'deco',
               'deco2', 'annot', 'doc', 'attr_init', 'method', 'prop', 'me', 'clsm_sub', 'call',
               'cattr', 'own', 'cmeth', 'list_idx', 'tuple_idx', 'dict_key', 'nested', 'alias',
               'walrus', 'arith', 'arith_f', 'strmeth', 'strfmt', 'builtin_len', 'cls_ref', 'fn_ref',
               'kwv', 'star', 'gen_unpack', 'loop_unpack', 'relay_unpack', 'star_call', 'star_list',
               'mi_method', 'mi_attr'}


class Builder:
    def __init__(self, rnd, multi_module=False):
        self.r = rnd
        self.vars = []          # (name, single_valued)
        self.lines = []
        self.probes = []        # dict(var, tag, single)
        self.multi = multi_module

    def val(self):
        if self.vars and self.r.random() < 0.6:
            return self.r.choice(self.vars)
        return (self.r.choice(ATOMS), True)

    def stmt(self):
        n = len(self.vars)
        v = 'v%d' % n
        (x, sx), (y, sy) = self.val(), self.val()
        tag, tpl, merges = self.r.choice(FORMS)
        code = tpl.format(v=v, x=x, y=y, n=n)
        single = (not merges) and sx and sy and tag in EXACT_FORMS
        self.lines.append(code)
        self.lines.append(v)
        self.vars.append((v, (not merges) and sx and sy))
        self.probes.append({'var': v, 'tag': tag, 'single': single, 'inputs': [x, y]})

    def build(self, nstmts):
        for _ in range(nstmts):
            self.stmt()
        if self.multi:
            head = self.r.choice(['from lib import *', 'from lib import A, B, C, Nd, Fb, LgStm, Stm, gen_loop, relay, ident, second, pair, '
                                  'dflt, star, kwv, kwonly, closure, gen_two, deco_ident, deco2_ident, '
                                  'narrow, annotated, doc_typed'])
            files = {'lib.py': LIB, 'main.py': head + '\n' + '\n'.join(self.lines) + '\n'}
        else:
            files = {'main.py': LIB + '\n'.join(self.lines) + '\n'}
        # probe lines: lines that are exactly vN
        main = files['main.py'].split('\n')
        k = 0
        import re
        for i, l in enumerate(main, 1):
            if re.fullmatch(r'v\d+', l):
                self.probes[k]['line'] = i
                k += 1
        assert k == len(self.probes)
        return files


RUNNER = r'''
import sys, json, ast, types, os
d = sys.argv[1]
sys.path.insert(0, d)
src = open(os.path.join(d, 'main.py')).read()
probes = set(json.load(open(os.path.join(d, 'probes.json'))))
tree = ast.parse(src)
class T(ast.NodeTransformer):
    def visit_Expr(self, node):
        if isinstance(node.value, ast.Name) and node.lineno in probes:
            new = ast.Expr(ast.Call(ast.Name('__obs__', ast.Load()), [ast.Constant(node.lineno), node.value], []))
            return ast.copy_location(new, node)
        return node
tree = ast.fix_missing_locations(T().visit(tree))
OBS = {}
def where(cls):
    m = sys.modules.get(cls.__module__)
    return getattr(m, '__file__', None) or ('main.py' if cls.__module__ == '__main__' else None)
def __obs__(k, v):
    t = type(v)
    if isinstance(v, type): d = ['class', v.__module__, v.__qualname__, where(v)]
    elif isinstance(v, (types.FunctionType, types.MethodType)): d = ['function', v.__module__, v.__name__, None]
    elif isinstance(v, types.ModuleType): d = ['module', None, v.__name__, None]
    else: d = ['instance', t.__module__, t.__qualname__, where(t)]
    OBS.setdefault(k, [])
    if d not in OBS[k]: OBS[k].append(d)
    try:
        names = None
        if d[0] in ('instance', 'class') and d[1] in ('__main__', 'lib'):
            cls = v if isinstance(v, type) else t
            names = set()
            for c in cls.__mro__:
                if c.__module__ in ('__main__', 'lib'):
                    names |= set(vars(c))
            if not isinstance(v, type):
                names |= set(vars(v))
            names = sorted(n for n in names if not (n.startswith('__') and n.endswith('__')) or n in ('__init__', '__call__', '__getitem__', '__enter__', '__exit__', '__iter__'))
        OBS.setdefault('attrs', {})[str(k)] = names
    except Exception:
        pass
def class_attrs(ns):
    out = {}
    for v in list(ns.values()):
        if isinstance(v, type) and v.__module__ in ('__main__', 'lib'):
            names = set()
            for c in v.__mro__:
                if c.__module__ in ('__main__', 'lib'):
                    names |= set(vars(c))
            out[v.__name__] = sorted(n for n in names if not (n.startswith('__') and n.endswith('__')))
            # the def statement (line) that created each function the class really has
            out['%lines:' + v.__name__] = {n: f.__code__.co_firstlineno for n, f in vars(v).items()
                                           if isinstance(f, types.FunctionType)}
    return out
try:
    NS = {'__name__': '__main__', '__obs__': __obs__, '__file__': os.path.join(d, 'main.py')}
    exec(compile(tree, os.path.join(d, 'main.py'), 'exec'), NS)
    OBS['class_attrs'] = class_attrs(NS)
    if 'lib' in sys.modules:
        OBS['class_attrs'].update(class_attrs(vars(sys.modules['lib'])))
    json.dump({'ok': True, 'obs': OBS}, sys.stdout)
except BaseException as e:
    json.dump({'ok': False, 'err': type(e).__name__ + ': ' + str(e)[:80], 'obs': OBS}, sys.stdout)
'''
