"""Object-graph generator for C13: classes whose special methods count their own calls.

gen_source(rnd) returns Python source that, when executed, defines COUNTER (a dict), a few
classes with a random selection of features, and OBJECTS: {name: object} to be placed in the
Interpreter namespace, plus PLAIN: [(expression, expected type name, kind)] for attribute/item
paths that go through plain attributes and builtin containers only."""

FEATURES = ['property', 'nondata_desc', 'data_desc', 'slots', 'meta_property', 'meta_desc',
            'getattr', 'getattribute', 'dir', 'getitem', 'iter', 'next', 'call', 'len', 'bool',
            'classattr', 'instattr', 'nested', 'method', 'sub_builtin_desc', 'getdel_desc',
            'cm_property', 'meta_shadowed', 'ann_property']

PRELUDE = '''
import collections, types, typing
T_VAR = typing.TypeVar('T_VAR')
COUNTER = collections.Counter()
LOGGED = collections.Counter()

class NonData:
    def __init__(self, tag): self.tag = tag
    def __get__(self, obj, typ=None):
        COUNTER[(self.tag, '__get__')] += 1
        return 11

class Data:
    def __init__(self, tag): self.tag = tag
    def __get__(self, obj, typ=None):
        COUNTER[(self.tag, '__get__')] += 1
        return 12
    def __set__(self, obj, value):
        pass

class GetDelete:
    """descriptor with __get__ and __delete__ but no __set__: still a data descriptor"""
    def __init__(self, tag): self.tag = tag
    def __get__(self, obj, typ=None):
        COUNTER[(self.tag, '__get__')] += 1
        return 14
    def __delete__(self, obj):
        pass

class LazyClassMethod(classmethod):
    """user descriptor deriving from a builtin descriptor type"""
    def __get__(self, obj, typ=None):
        COUNTER[('LazyClassMethod', '__get__')] += 1
        return super().__get__(obj, typ)

class CachedStatic(staticmethod):
    def __get__(self, obj, typ=None):
        COUNTER[('CachedStatic', '__get__')] += 1
        return super().__get__(obj, typ)

class LoggedProperty(property):
    def __get__(self, obj, typ=None):
        COUNTER[('LoggedProperty', '__get__')] += 1
        return 13

class Leaf:
    """plain class used as a stored value"""
    leaf_attr = 5
    def leaf_method(self): return 1

def plain_function(a, b=2):
    return a

# subclasses of builtin containers whose __getitem__ is user code: defined on the class itself,
# inherited from an intermediate base, or taken from a mixin
class LoggedList(list):
    def __getitem__(self, i):
        COUNTER[('LoggedList', '__getitem__')] += 1
        return list.__getitem__(self, i)

class Rows(LoggedList):
    pass

class KeyMixin:
    def __getitem__(self, k):
        COUNTER[('KeyMixin', '__getitem__')] += 1
        return Leaf()

class Table(KeyMixin, dict):
    pass

class LoggedTuple(tuple):
    def __getitem__(self, i):
        COUNTER[('LoggedTuple', '__getitem__')] += 1
        return tuple.__getitem__(self, i)

class Pair(LoggedTuple):
    pass

class PlainRows(list):
    pass

# subclasses of builtin containers whose __iter__ is user code
class IterList(list):
    def __iter__(self):
        COUNTER[('IterList', '__iter__')] += 1
        return list.__iter__(self)

class IterRows(IterList):
    pass

class IterTuple(tuple):
    def __iter__(self):
        COUNTER[('IterTuple', '__iter__')] += 1
        return tuple.__iter__(self)
'''


def gen_class(rnd, name, base, feats, meta=None):
    L = []
    hdr = []
    if base:
        hdr.append(base)
    if meta:
        hdr.append('metaclass=%s' % meta)
    L.append('class %s(%s):' % (name, ', '.join(hdr)) if hdr else 'class %s:' % name)
    body = []
    if 'slots' in feats and not base:
        body.append("    __slots__ = ('s_one', 's_two', '__dict__')")
    if 'classattr' in feats:
        body.append('    c_int = 3')
        body.append("    c_str = 'txt'")
        body.append('    c_leaf = Leaf()')
        body.append('    c_func = plain_function')
        body.append('    c_cls = Leaf')
    if 'nondata_desc' in feats:
        body.append("    nd = NonData('%s.nd')" % name)
    if 'data_desc' in feats:
        body.append("    dd = Data('%s.dd')" % name)
    if 'getdel_desc' in feats:
        body.append("    gd = GetDelete('%s.gd')" % name)
    if 'sub_builtin_desc' in feats:
        body.append('    lcm = LazyClassMethod(lambda cls: Leaf())')
        body.append('    csm = CachedStatic(lambda: Leaf())')
        body.append('    lprop = LoggedProperty(lambda self: Leaf())')
    body.append('    def __init__(self):')
    init = []
    if 'instattr' in feats:
        init += ['        self.i_int = 1', "        self.i_str = 's'", '        self.i_leaf = Leaf()',
                 "        self.i_list = [Leaf(), {'k': (1, Leaf())}]", '        self.i_func = plain_function',
                 '        self.i_cls = Leaf', '        self._private = 2.5']
    if 'slots' in feats and not base:
        init += ['        self.s_one = 7']
    if 'nested' in feats:
        init += ['        self.i_ns = types.SimpleNamespace(q=1, r=Leaf(), t=(Leaf(), "z"))']
    if 'getdel_desc' in feats:
        # an instance __dict__ entry shadowed by the data descriptor of the same name
        init += ["        self.__dict__['gd'] = 12345"]
    body += init or ['        pass']
    if 'ann_property' in feats:
        # properties whose return annotation cannot be resolved to a type (a name that only
        # exists for type checkers, a bare TypeVar) and one that can
        body += ['    @property', "    def aprop(self) -> 'OnlyForTypeCheckers':",
                 "        COUNTER[('%s', 'property')] += 1" % name, '        return Leaf()',
                 '    @property', '    def tprop(self) -> T_VAR:',
                 "        COUNTER[('%s', 'property')] += 1" % name, '        return Leaf()',
                 '    @property', '    def iprop(self) -> int:',
                 "        COUNTER[('%s', 'property')] += 1" % name, '        return 1']
    if 'cm_property' in feats:
        # @classmethod on top of @property: the classmethod hands the access on (Python 3.9-3.12)
        body += ['    @classmethod', '    @property', '    def cprop(cls):',
                 "        COUNTER[('%s', 'property')] += 1" % name, '        return Leaf()']
    if 'meta_shadowed' in feats and meta:
        # class attributes spelled like a property / data descriptor of the metaclass (which win)
        body += ["    mprop = 'class attribute shadowed by the metaclass property'",
                 "    mdd = 'class attribute shadowed by the metaclass data descriptor'"]
    if 'property' in feats:
        body += ['    @property', '    def prop(self):', "        COUNTER[('%s', 'property')] += 1" % name,
                 '        return Leaf()']
    if 'method' in feats:
        body += ['    def meth(self, x=1):', '        return x',
                 '    @staticmethod', '    def smeth(): return 1',
                 '    @classmethod', '    def cmeth(cls): return cls']
    for feat, sig, ret in (('getitem', '__getitem__(self, key)', 'Leaf()'),
                           ('iter', '__iter__(self)', 'iter([Leaf()])'),
                           ('next', '__next__(self)', 'Leaf()'),
                           ('call', '__call__(self, *a, **k)', 'Leaf()'),
                           ('len', '__len__(self)', '2'),
                           ('bool', '__bool__(self)', 'True')):
        if feat in feats:
            m = sig.split('(')[0]
            body += ['    def %s:' % sig, "        COUNTER[('%s', '%s')] += 1" % (name, m),
                     '        return %s' % ret]
    if 'getattr' in feats:
        body += ['    def __getattr__(self, k):', "        LOGGED[('%s', '__getattr__')] += 1" % name,
                 "        if k == 'dynamic_one': return 5", '        raise AttributeError(k)']
    if 'getattribute' in feats:
        body += ['    def __getattribute__(self, k):', "        LOGGED[('%s', '__getattribute__')] += 1" % name,
                 '        return object.__getattribute__(self, k)']
    if 'dir' in feats:
        body += ['    def __dir__(self):', "        LOGGED[('%s', '__dir__')] += 1" % name,
                 "        return sorted(set(object.__dir__(self)) | {'dynamic_one'})"]
    L += body
    return L


def gen_source(rnd, nclasses=3):
    L = [PRELUDE]
    objects = []
    plain = []
    classes = []
    for ci in range(nclasses):
        name = 'K%d' % ci
        feats = set(rnd.sample(FEATURES, rnd.randint(3, 9)))
        feats.add('instattr') if rnd.random() < 0.7 else None
        meta = None
        if feats & {'meta_property', 'meta_desc'}:
            meta = 'M%d' % ci
            L.append('class %s(type):' % meta)
            if 'meta_property' in feats:
                L += ['    @property', '    def mprop(cls):', "        COUNTER[('%s', 'metaclass property')] += 1" % meta,
                      '        return 1']
            if 'meta_desc' in feats:
                L.append("    mnd = NonData('%s.mnd')" % meta)
                L.append("    mdd = Data('%s.mdd')" % meta)
            L.append('    def meta_method(cls): return 2')
            L.append('')
        base = None
        if classes and rnd.random() < 0.45 and not meta:
            base = rnd.choice(classes)[0]
        L += gen_class(rnd, name, base, feats, meta)
        L.append('')
        allf = set(feats)
        if base:
            allf |= dict(classes)[base]
        classes.append((name, allf))
        inst = 'o%d' % ci
        L.append('%s = %s()' % (inst, name))
        objects += [inst, name]
        if 'nondata_desc' in allf:
            # a second instance whose own __dict__ shadows the class-level non-data descriptor
            # (what a computed cached_property leaves behind); the first instance has no such entry
            L.append('%ss = %s()' % (inst, name))
            L.append("%ss.__dict__['nd'] = Leaf()" % inst)
            objects.append(inst + 's')
        if 'instattr' in feats:
            plain += [('%s.i_int' % inst, 'int', 'instance'), ('%s.i_str' % inst, 'str', 'instance'),
                      ('%s.i_leaf' % inst, 'Leaf', 'instance'),
                      ("%s.i_list[0]" % inst, 'Leaf', 'instance'),
                      ("%s.i_list[1]['k'][1]" % inst, 'Leaf', 'instance'),
                      ("%s.i_list[1]['k'][0]" % inst, 'int', 'instance'),
                      ('%s.i_func' % inst, 'plain_function', 'function'),
                      ('%s.i_cls' % inst, 'Leaf', 'class'),
                      ('%s._private' % inst, 'float', 'instance')]
        if 'classattr' in feats:
            plain += [('%s.c_int' % inst, 'int', 'instance'), ('%s.c_leaf' % name, 'Leaf', 'instance'),
                      ('%s.c_str' % name, 'str', 'instance'), ('%s.c_cls' % name, 'Leaf', 'class')]
        if 'nested' in feats:
            plain += [('%s.i_ns.q' % inst, 'int', 'instance'), ('%s.i_ns.r' % inst, 'Leaf', 'instance'),
                      ('%s.i_ns.t[0]' % inst, 'Leaf', 'instance'), ('%s.i_ns.t[1]' % inst, 'str', 'instance')]
        if 'slots' in feats and not base:
            plain += [('%s.s_one' % inst, 'int', 'instance')]
    L.append("box = {'objs': [%s], 'tup': (%s,)}" % (', '.join(o for o in objects if o.startswith('o')),
                                                     objects[0]))
    L.append('ns_obj = types.SimpleNamespace(first=%s, leaf=Leaf())' % objects[0])
    L.append('sub_direct = LoggedList([Leaf(), 1])')
    L.append('sub_rows = Rows([Leaf(), 1])')
    L.append("sub_table = Table(k=Leaf())")
    L.append('sub_pair = Pair((Leaf(), 2))')
    L.append('sub_plain = PlainRows([Leaf(), 3])')
    L.append("sub_box = {'rows': Rows([Leaf()]), 'both': [Table(k=1), Pair((Leaf(),))]}")
    L.append('sub_iter = IterList([Leaf(), 1])')
    L.append("sub_iterbox = {'it': IterRows([Leaf()]), 'tup': [IterTuple((Leaf(), 2))]}")
    objects += ['box', 'ns_obj', 'sub_direct', 'sub_rows', 'sub_table', 'sub_pair', 'sub_plain', 'sub_box',
                'sub_iter', 'sub_iterbox']
    # (items of a *subclass* of a builtin container are not claimed by the plain-path clause)
    plain += [("box['objs'][0]", classes[0][0], 'instance'), ("box['tup'][0]", classes[0][0], 'instance'),
              ('ns_obj.leaf', 'Leaf', 'instance'), ('ns_obj.first', classes[0][0], 'instance')]
    L.append('OBJECTS = %r' % objects)
    L.append('PLAIN = %r' % plain)
    L.append('FEATURES_BY_CLASS = %r' % {n: sorted(f) for n, f in classes})
    return '\n'.join(L) + '\n', objects, plain, dict(classes)
