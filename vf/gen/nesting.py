"""Generator of importable, side-effect-free modules made of nested definitions:
classes, functions, async functions, lambdas, comprehensions, decorated definitions."""

DECOS = ['staticmethod', 'classmethod', 'property', '_deco', '_deco_args(1)']


def gen_module(rnd, max_depth=4, budget=40):
    out = ['import functools', '', '',
           'def _deco(f):', '    return f', '', '',
           'def _deco_args(n):', '    def wrap(f):', '        return f', '    return wrap', '', '']
    counter = [0]
    state = {'budget': budget}

    def fresh(prefix):
        counter[0] += 1
        return '%s%d' % (prefix, counter[0])

    def body(indent, depth, kind):
        """Emit 1..4 statements of a body at `indent`."""
        pad = ' ' * indent
        n = rnd.randint(1, 4)
        emitted = 0
        for _ in range(n):
            if state['budget'] <= 0:
                break
            state['budget'] -= 1
            r = rnd.random()
            if r < 0.30 and depth < max_depth:
                name = fresh('f')
                params = rnd.choice(['', 'a', 'a, b=1', '*args, **kw', 'self', 'self, x', 'cls',
                                     'a: int, b: str = "s"', '*args: int, **kw: str', 'self, x: "object" = None',
                                     'a: int = 1, /, *, key: list = None'])
                deco = rnd.random() < 0.3
                if deco:
                    d = rnd.choice(DECOS)
                    if kind != 'class' and d in ('staticmethod', 'classmethod', 'property'):
                        d = '_deco'
                    if d == 'property':
                        params = 'self'
                    elif d == 'classmethod':
                        params = 'cls'
                    elif d == 'staticmethod' and params.startswith(('self', 'cls')):
                        params = 'a'
                    out.append('%s@%s' % (pad, d))
                    if rnd.random() < 0.3 and d.startswith('_deco'):
                        out.append('%s@_deco' % pad)
                is_async = rnd.random() < 0.2 and not deco
                hdr = '%s%sdef %s(%s):' % (pad, 'async ' if is_async else '', name, params)
                if rnd.random() < 0.2 and params in ('a, b=1',):
                    hdr = '%sdef %s(a,\n%s        b=(lambda q: q)(1)):' % (pad, name, pad)
                out.append(hdr)
                if rnd.random() < 0.3:
                    out.append('%s    """doc of %s"""' % (pad, name))
                body(indent + 4, depth + 1, 'func')
                out.append('')
            elif r < 0.50 and depth < max_depth:
                name = fresh('K')
                bases = rnd.choice(['', '(object)', '(Exception)'])
                if rnd.random() < 0.2:
                    out.append('%s@_deco' % pad)
                out.append('%sclass %s%s:' % (pad, name, bases))
                body(indent + 4, depth + 1, 'class')
                out.append('')
            elif r < 0.62:
                out.append('%s%s = lambda p, q=2: (p, q, [z for z in (p, q) if z])' % (pad, fresh('lam')))
            elif r < 0.74:
                v = fresh('v')
                out.append('%s%s = [i * 2 for i in range(3) if i]' % (pad, v))
                out.append('%s%s = {k: [m for m in range(k)] for k in range(2)}' % (pad, fresh('v')))
            elif r < 0.84:
                out.append('%s%s = 1' % (pad, fresh('v')))
            elif r < 0.92:
                out.append('%sif True:' % pad)
                out.append('%s    %s = 2' % (pad, fresh('v')))
                out.append('%selse:' % pad)
                out.append('%s    pass' % pad)
            else:
                out.append('%stry:' % pad)
                out.append('%s    %s = 3' % (pad, fresh('v')))
                out.append('%sexcept Exception as %s:' % (pad, fresh('e')))
                out.append('%s    pass' % pad)
            emitted += 1
        if emitted == 0:
            out.append('%spass' % pad)
        elif kind == 'func' and rnd.random() < 0.5:
            out.append('%sreturn None' % pad)

    while state['budget'] > 0:
        body(0, 0, 'module')
    return '\n'.join(out) + '\n'
