"""Scope-shape programs for C03.  Every bound value is a unique object V(site), so a read at a
use identifies the binding site that produced it; the generator knows, for each site, the
scope that owns the binding (following global/nonlocal declarations).

A program is rendered from a tree of ops:
  ('bind', ident, how)            how in assign | for | with | walrus | import | except
  ('use', ident)
  ('def', param_ident|None, decl|None, body)     decl = (ident, 'global'|'nonlocal')
  ('class', body)
  ('lambda', ident)
  ('comp', used_ident, target_ident)
"""
import itertools

IDENTS = ['a', 'b']
BUILTIN = 'len'
MODULES = ['os', 'sys', 're', 'json', 'math', 'time', 'random', 'string', 'glob', 'shutil',
           'struct', 'copy', 'enum', 'heapq', 'bisect']

PRELUDE = '''class V:
    def __init__(self, s): self.s = s
class Boom(Exception):
    def __init__(self, s): self.s = s
class CM:
    def __init__(self, v): self.v = v
    def __enter__(self): return self.v
    def __exit__(self, *a): return False
def T(f, *a):
    try: f(*a)
    except NameError: pass
def U(k, v):
    OBS.append((k, getattr(v, "s", None), type(v).__name__, getattr(v, "__name__", None))); return v
'''


class Scope:
    def __init__(self, kind, parent, sid):
        self.id, self.kind, self.parent = sid, kind, parent
        self.decl = {}
        self.binds = set()

    def chain(self):
        out, p = [], self
        while p is not None:
            out.append(p)
            p = p.parent
        return out


class Program:
    def __init__(self):
        self.lines = PRELUDE.rstrip('\n').split('\n')
        self.uses = []       # (line, col, ident, scope, straight)
        self.sites = {}      # site -> dict(line, col, ident, scope, how)
        self.decl_pos = []   # (line, col, ident, scope, kind)
        self.site = 0
        self.fn = 0
        self.nscopes = 0
        self.modules_used = 0
        self.root = self.new_scope('module', None)

    def new_scope(self, kind, parent):
        self.nscopes += 1
        return Scope(kind, parent, self.nscopes)

    def emit(self, ind, s):
        self.lines.append('    ' * ind + s)
        return len(self.lines)

    def bindsite(self, ln, col, ident, scope, how, module=None):
        self.site += 1
        self.sites[self.site] = dict(line=ln, col=col, ident=ident, scope=scope, how=how, module=module)
        scope.binds.add(ident)
        return self.site

    def use(self, ind, scope, ident):
        k = len(self.uses)
        self.emit(ind, 'try:')
        ln = self.emit(ind + 1, 'U(%d, %s)' % (k, ident))
        self.emit(ind, 'except NameError: pass')
        self.uses.append((ln, self.lines[ln - 1].rindex(ident), ident, scope))

    def render(self, ops, ind, scope):
        for op in ops:
            kind = op[0]
            if kind == 'bind':
                _, ident, how = op
                s = self.site + 1
                if how == 'assign':
                    ln = self.emit(ind, '%s = V(%d)' % (ident, s))
                    self.bindsite(ln, 4 * ind, ident, scope, how)
                elif how == 'for':
                    ln = self.emit(ind, 'for %s in [V(%d)]: pass' % (ident, s))
                    self.bindsite(ln, 4 * ind + 4, ident, scope, how)
                elif how == 'with':
                    ln = self.emit(ind, 'with CM(V(%d)) as %s: pass' % (s, ident))
                    self.bindsite(ln, self.lines[-1].rindex(ident + ':'), ident, scope, how)
                elif how == 'walrus':
                    ln = self.emit(ind, '(%s := V(%d))' % (ident, s))
                    self.bindsite(ln, 4 * ind + 1, ident, scope, how)
                elif how == 'import':
                    if self.modules_used >= len(MODULES):
                        continue
                    mod = MODULES[self.modules_used]
                    self.modules_used += 1
                    ln = self.emit(ind, 'import %s as %s' % (mod, ident))
                    self.bindsite(ln, self.lines[-1].rindex(ident), ident, scope, how, module=mod)
                elif how == 'except':
                    self.emit(ind, 'try: raise Boom(%d)' % s)
                    k = len(self.uses)
                    ln = self.emit(ind, 'except Boom as %s: U(%d, %s)' % (ident, k, ident))
                    L = self.lines[-1]
                    self.bindsite(ln, L.index(' as ') + 4, ident, scope, how)
                    self.uses.append((ln, L.rindex(ident), ident, scope))
            elif kind == 'use':
                self.use(ind, scope, op[1])
            elif kind == 'def':
                _, param, decl, body = op
                self.fn += 1
                name = 'f%d' % self.fn
                sc = self.new_scope('def', scope)
                if param is None:
                    self.emit(ind, 'def %s():' % name)
                    call = 'T(%s)' % name
                else:
                    ln = self.emit(ind, 'def %s(%s):' % (name, param))
                    s = self.bindsite(ln, self.lines[-1].index('(') + 1, param, sc, 'param')
                    call = 'T(%s, V(%d))' % (name, s)
                if decl is not None:
                    d, dk = decl
                    ln = self.emit(ind + 1, '%s %s' % (dk, d))
                    sc.decl[d] = dk
                    self.decl_pos.append((ln, self.lines[-1].rindex(d), d, sc, dk))
                n0 = len(self.lines)
                self.render(body, ind + 1, sc)
                if len(self.lines) == n0:
                    self.emit(ind + 1, 'pass')
                self.emit(ind, call)
            elif kind == 'class':
                self.fn += 1
                sc = self.new_scope('class', scope)
                self.emit(ind, 'class K%d:' % self.fn)
                n0 = len(self.lines)
                self.render(op[1], ind + 1, sc)
                if len(self.lines) == n0:
                    self.emit(ind + 1, 'pass')
            elif kind == 'lambda':
                sc = self.new_scope('lambda', scope)
                k = len(self.uses)
                ln = self.emit(ind, 'T(lambda: U(%d, %s))' % (k, op[1]))
                self.uses.append((ln, self.lines[-1].rindex(op[1]), op[1], sc))
            elif kind == 'default_use':
                # a use in the default value of a parameter *of the same name*: evaluated in the
                # enclosing scope when the lambda / def is created
                _, ident, form = op
                k = len(self.uses)
                self.emit(ind, 'try:')
                if form == 'lambda':
                    ln = self.emit(ind + 1, '(lambda %s=U(%d, %s): 0)' % (ident, k, ident))
                else:
                    self.fn += 1
                    ln = self.emit(ind + 1, 'def fd%d(%s=U(%d, %s)): pass' % (self.fn, ident, k, ident))
                L = self.lines[-1]
                self.emit(ind, 'except NameError: pass')
                self.uses.append((ln, L.index(ident, L.index('U(') + 3), ident, scope, form + '_default'))
            elif kind == 'comp':
                _, used, target = op
                sc = self.new_scope('comp', scope)
                s = self.site + 1
                k = len(self.uses)
                self.emit(ind, 'try:')
                ln = self.emit(ind + 1, '[U(%d, %s) for %s in [V(%d)]]' % (k, used, target, s))
                L = self.lines[-1]
                self.emit(ind, 'except NameError: pass')
                self.uses.append((ln, L.index(used, L.index('U(') + 3), used, sc))
                self.bindsite(ln, L.index(' for ') + 5, target, sc, 'comp')

    def source(self):
        return '\n'.join(self.lines) + '\n'


def owner(scope, ident, root):
    """Scope that owns a binding of `ident` written syntactically in `scope`."""
    d = scope.decl.get(ident)
    if d == 'global':
        return root
    if d == 'nonlocal':
        p = scope.parent
        while p is not None:
            if p.kind in ('def', 'lambda', 'comp') and ident in p.binds and p.decl.get(ident) != 'global':
                return owner(p, ident, root)
            p = p.parent
        return None
    return scope


def build(ops):
    p = Program()
    p.render(ops, 0, p.root)
    return p


# ------------------------------------------------------------------ random trees

def random_ops(rnd, depth=0, max_depth=3, in_def=False):
    n = rnd.randint(2, 5)
    ops = []
    idents = IDENTS + ([BUILTIN] if rnd.random() < 0.35 else [])
    for _ in range(n):
        c = rnd.random()
        ident = rnd.choice(idents)
        if c < 0.30:
            how = rnd.choice(['assign', 'assign', 'assign', 'for', 'with', 'walrus', 'import', 'except'])
            if ident == BUILTIN and rnd.random() < 0.6:
                continue
            ops.append(('bind', ident, how))
        elif c < 0.55:
            ops.append(('use', ident))
        elif c < 0.60:
            ops.append(('default_use', ident, rnd.choice(['lambda', 'def'])))
        elif c < 0.92 and depth < max_depth:
            k = rnd.choice(['def', 'def', 'def', 'class', 'lambda', 'comp'])
            if k == 'def':
                param = rnd.choice([None, None, ident])
                decl = None
                if rnd.random() < 0.35:
                    d = rnd.choice(IDENTS)
                    if d != param:
                        decl = (d, 'nonlocal' if (in_def and rnd.random() < 0.5) else 'global')
                ops.append(('def', param, decl, random_ops(rnd, depth + 1, max_depth, True)))
            elif k == 'class':
                ops.append(('class', random_ops(rnd, depth + 1, max_depth, in_def)))
            elif k == 'lambda':
                ops.append(('lambda', ident))
            else:
                ops.append(('comp', ident, rnd.choice(IDENTS)))
        else:
            ops.append(('use', ident))
    return ops


# ------------------------------------------------------------------ exhaustive small shapes

def small_shapes():
    """All shapes of nesting depth <= 2 over identifier `a` (and `b` as comprehension target):
    module binding (none/before/after) x depth-1 scope (def/class) with its own binding pattern
    x depth-2 construct (none/def/class/lambda/comp) with its pattern x uses everywhere."""
    B = lambda: ('bind', 'a', 'assign')  # noqa: E731
    Us = ('use', 'a')
    outer_opts = ['none', 'before', 'after', 'both']
    mid_kinds = ['def', 'class']
    mid_opts = ['none', 'before', 'after', 'param', 'global', 'global_bind']
    inner_kinds = ['none', 'def', 'class', 'lambda', 'comp', 'comp_shadow']
    inner_opts = ['use', 'bind_use', 'use_bind', 'global_use', 'global_bind_use', 'nonlocal_use',
                  'nonlocal_bind_use', 'param']
    for outer, mk, mo, ik in itertools.product(outer_opts, mid_kinds, mid_opts, inner_kinds):
        if mk == 'class' and mo in ('param', 'global', 'global_bind'):
            continue
        ios = inner_opts if ik in ('def',) else (['use', 'bind_use', 'use_bind'] if ik == 'class' else ['use'])
        for io in ios:
            inner = []
            if ik == 'def':
                decl = None
                param = None
                body = []
                if io == 'use':
                    body = [Us]
                elif io == 'bind_use':
                    body = [B(), Us]
                elif io == 'use_bind':
                    body = [Us, B()]
                elif io == 'global_use':
                    decl, body = ('a', 'global'), [Us]
                elif io == 'global_bind_use':
                    decl, body = ('a', 'global'), [B(), Us]
                elif io == 'nonlocal_use':
                    decl, body = ('a', 'nonlocal'), [Us]
                elif io == 'nonlocal_bind_use':
                    decl, body = ('a', 'nonlocal'), [B(), Us]
                elif io == 'param':
                    param, body = 'a', [Us]
                inner = [('def', param, decl, body)]
            elif ik == 'class':
                body = {'use': [Us], 'bind_use': [B(), Us], 'use_bind': [Us, B()]}[io]
                inner = [('class', body)]
            elif ik == 'lambda':
                inner = [('lambda', 'a')]
            elif ik == 'comp':
                inner = [('comp', 'a', 'b')]
            elif ik == 'comp_shadow':
                inner = [('comp', 'a', 'a')]
            mid_body = []
            mdecl = None
            mparam = None
            if mo == 'before':
                mid_body = [B()] + inner + [Us]
            elif mo == 'after':
                mid_body = inner + [Us, B()]
            elif mo == 'none':
                mid_body = inner + [Us]
            elif mo == 'param':
                mparam, mid_body = 'a', inner + [Us]
            elif mo == 'global':
                mdecl, mid_body = ('a', 'global'), inner + [Us]
            elif mo == 'global_bind':
                mdecl, mid_body = ('a', 'global'), [B()] + inner + [Us]
            mid = ('def', mparam, mdecl, mid_body) if mk == 'def' else ('class', mid_body)
            ops = []
            if outer in ('before', 'both'):
                ops.append(B())
            ops.append(mid)
            ops.append(Us)
            if outer in ('after', 'both'):
                ops.append(B())
                ops.append(Us)
            yield ops


def class_chain_shapes():
    """Chains of 2-3 directly nested classes (optionally inside a function), each class body
    binding `a` or not, with a function-like scope (def, lambda, comprehension, parameter
    default) or a plain class-body use at the innermost level: Python never consults an
    enclosing class scope from a nested function or class."""
    B = lambda: ('bind', 'a', 'assign')  # noqa: E731
    Us = ('use', 'a')
    inner_kinds = ['def', 'def_param_other', 'lambda', 'comp', 'default_lambda', 'default_def', 'use']
    for outer, encl, depth in itertools.product(['none', 'before', 'after'], ['no', 'def', 'def_bind'], [2, 3]):
        for binds in itertools.product([False, True], repeat=depth):
            if not any(binds[:-1]):
                continue       # some class outside the innermost one binds the name
            for ik in inner_kinds:
                inner = {'def': [('def', None, None, [Us])],
                         'def_param_other': [('def', 'b', None, [Us])],
                         'lambda': [('lambda', 'a')],
                         'comp': [('comp', 'a', 'b')],
                         'default_lambda': [('default_use', 'a', 'lambda')],
                         'default_def': [('default_use', 'a', 'def')],
                         'use': [Us]}[ik]
                body = inner
                for has in reversed(binds):
                    body = [('class', ([B()] if has else []) + body)]
                if encl != 'no':
                    body = [('def', None, None, ([B()] if encl == 'def_bind' else []) + body)]
                ops = ([B()] if outer == 'before' else []) + body + ([B(), Us] if outer == 'after' else [Us])
                yield ops
