"""Edit-history generator for C08: sequences of texts t0 -> t1 -> ... -> tk."""
import re

from vf import mutate


def history(text, rnd, length):
    """Returns list of (text, offset near the edit)."""
    out = [(text, None)]
    undo = []
    for _ in range(length):
        cur = out[-1][0]
        kind = rnd.choice(['mutate', 'mutate', 'mutate', 'line_ins', 'line_del', 'block_indent',
                           'paste', 'undo', 'rename_def', 'move_def', 'delete_def', 'type_chars'])
        near = None
        lines = cur.splitlines(keepends=True)
        if kind == 'undo' and undo:
            new = undo.pop()
        elif kind == 'line_ins' and lines:
            i = rnd.randrange(len(lines) + 1)
            ins = rnd.choice(['x_new = 1\n', '    pass\n', 'def added_fn(a, b=2):\n    return a\n',
                              'class AddedCls:\n    attr = 3\n', 'import os\n', '\n', '# comment\n',
                              'added_fn(', 'AddedCls().', '    return\n'])
            lines.insert(i, ins)
            new = ''.join(lines)
            near = sum(map(len, lines[:i])) + len(ins)
        elif kind == 'line_del' and len(lines) > 1:
            i = rnd.randrange(len(lines))
            n = rnd.randint(1, 4)
            near = sum(map(len, lines[:i]))
            del lines[i:i + n]
            new = ''.join(lines)
        elif kind == 'block_indent' and lines:
            i = rnd.randrange(len(lines))
            n = rnd.randint(1, 6)
            ind = rnd.random() < 0.5
            for j in range(i, min(len(lines), i + n)):
                lines[j] = ('    ' + lines[j]) if ind else (lines[j][4:] if lines[j].startswith('    ') else lines[j])
            new = ''.join(lines)
            near = sum(map(len, lines[:i]))
        elif kind == 'paste' and len(lines) > 3:
            i = rnd.randrange(len(lines))
            n = rnd.randint(1, 8)
            block = lines[i:i + n]
            j = rnd.randrange(len(lines) + 1)
            lines[j:j] = block
            new = ''.join(lines)
            near = sum(map(len, lines[:j]))
        elif kind in ('rename_def', 'move_def', 'delete_def'):
            defs = [i for i, l in enumerate(lines) if re.match(r'\s*(def|class)\s+\w+', l)]
            if not defs:
                new, near = mutate.mutate(cur, rnd)
            else:
                i = rnd.choice(defs)
                ind = len(lines[i]) - len(lines[i].lstrip())
                j = i + 1
                while j < len(lines) and (not lines[j].strip() or len(lines[j]) - len(lines[j].lstrip()) > ind):
                    j += 1
                near = sum(map(len, lines[:i]))
                if kind == 'rename_def':
                    lines[i] = re.sub(r'(def|class)(\s+)(\w+)', lambda m: m.group(1) + m.group(2) + m.group(3) + '_r', lines[i], 1)
                elif kind == 'delete_def':
                    del lines[i:j]
                else:
                    block = lines[i:j]
                    del lines[i:j]
                    k = rnd.randrange(len(lines) + 1)
                    lines[k:k] = block
                    near = sum(map(len, lines[:k]))
                new = ''.join(lines)
        elif kind == 'type_chars':
            k = rnd.randrange(len(cur) + 1)
            word = rnd.choice(['self.', 'os.pa', 'foo(', 'x = ', 'import ', 'return ', 'prin', '[0].', ')', '"'])
            m = rnd.randint(1, len(word))
            new = cur[:k] + word[:m] + cur[k:]
            near = k + m
        else:
            new, near = mutate.mutate(cur, rnd)
        undo.append(cur)
        out.append((new, near))
    return out
