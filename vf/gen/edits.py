"""Edit-history generator for C08: sequences of texts t0 -> t1 -> ... -> tk."""
import re

from vf import mutate


def history(text, rnd, length):
    """Returns list of (text, offset near the edit)."""
    out = [(text, None)]
    undo = []
    for _ in range(length):
        cur = out[-1][0]
        kind = rnd.choice(['mutate', 'mutate', 'mutate', 'line_ins', 'line_del', 'block_indent',
                           'paste', 'undo', 'rename_def', 'move_def', 'delete_def', 'type_chars'])
        near = None
        lines = cur.splitlines(keepends=True)
        if kind == 'undo' and undo:
            new = undo.pop()
        elif kind == 'line_ins' and lines:
            i = rnd.randrange(len(lines) + 1)
            ins = rnd.choice(['x_new = 1\n', '    pass\n', 'def added_fn(a, b=2):\n    return a\n',
                              'class AddedCls:\n    attr = 3\n', 'import os\n', '\n', '# comment\n',
                              'added_fn(', 'AddedCls().', '    return\n'])
            lines.insert(i, ins)
            new = ''.join(lines)
            near = sum(map(len, lines[:i])) + len(ins)
        elif kind == 'line_del' and len(lines) > 1:
            i = rnd.randrange(len(lines))
            n = rnd.randint(1, 4)
            near = sum(map(len, lines[:i]))
            del lines[i:i + n]
            new = ''.join(lines)
        elif kind == 'block_indent' and lines:
            i = rnd.randrange(len(lines))
            n = rnd.randint(1, 6)
            ind = rnd.random() < 0.5
            for j in range(i, min(len(lines), i + n)):
                lines[j] = ('    ' + lines[j]) if ind else (lines[j][4:] if lines[j].startswith('    ') else lines[j])
            new = ''.join(lines)
            near = sum(map(len, lines[:i]))
        elif kind == 'paste' and len(lines) > 3:
            i = rnd.randrange(len(lines))
            n = rnd.randint(1, 8)
            block = lines[i:i + n]
            j = rnd.randrange(len(lines) + 1)
            lines[j:j] = block
            new = ''.join(lines)
            near = sum(map(len, lines[:j]))
        elif kind in ('rename_def', 'move_def', 'delete_def'):
            defs = [i for i, l in enumerate(lines) if re.match(r'\s*(def|class)\s+\w+', l)]
            if not defs:
                new, near = mutate.mutate(cur, rnd)
            else:
                i = rnd.choice(defs)
                ind = len(lines[i]) - len(lines[i].lstrip())
                j = i + 1
                while j < len(lines) and (not lines[j].strip() or len(lines[j]) - len(lines[j].lstrip()) > ind):
                    j += 1
                near = sum(map(len, lines[:i]))
                if kind == 'rename_def':
                    lines[i] = re.sub(r'(def|class)(\s+)(\w+)', lambda m: m.group(1) + m.group(2) + m.group(3) + '_r', lines[i], 1)
                elif kind == 'delete_def':
                    del lines[i:j]
                else:
                    block = lines[i:j]
                    del lines[i:j]
                    k = rnd.randrange(len(lines) + 1)
                    lines[k:k] = block
                    near = sum(map(len, lines[:k]))
                new = ''.join(lines)
        elif kind == 'type_chars':
            k = rnd.randrange(len(cur) + 1)
            word = rnd.choice(['self.', 'os.pa', 'foo(', 'x = ', 'import ', 'return ', 'prin', '[0].', ')', '"'])
            m = rnd.randint(1, len(word))
            new = cur[:k] + word[:m] + cur[k:]
            near = k + m
        else:
            new, near = mutate.mutate(cur, rnd)
        undo.append(cur)
        out.append((new, near))
    return out


# ------------------------------------------------------------------ structured histories

VALUES = ['1', '"s"', '2.5', '[1]', '{"k": 1}', '(1, "t")', 'None', 'Box()', 'len']


def new_state(rnd):
    """A small program as a structure: functions (return or yield a value expression, with a
    parameter list), one class, and module-level uses of every function."""
    st = {'funcs': [], 'cls_attr': rnd.choice(VALUES[:5]), 'serial': 0, 'crate_header': rnd.random() < 0.7,
          'crate_tag': rnd.choice(VALUES[:5])}
    for _ in range(rnd.randint(2, 4)):
        add_func(st, rnd)
    return st


def add_func(st, rnd):
    st['serial'] += 1
    st['funcs'].append({'name': 'fn%d' % st['serial'], 'params': rnd.choice(['', 'a', 'a, b=2', '*args', 'a, *, key=None']),
                        'kind': rnd.choice(['return', 'return', 'yield']),
                        'value': rnd.choice(VALUES), 'lead': rnd.randint(0, 2), 'doc': rnd.random() < 0.3})


def render_state(st):
    """Returns (text, positions) -- positions: cursor spots whose answers depend on the functions."""
    L = ['class Box:', '    attr = %s' % st['cls_attr'], '    def get(self):', '        return self.attr']
    # a second class whose header line comes and goes: without it, its members belong to Box
    if st.get('crate_header'):
        L.append('class Crate:')
    L += ['    tag = %s' % st.get('crate_tag', '1'), '    def title(self):', '        return self.tag',
          '    def header(self):', '        return self.title()', '']
    pos = []
    for f in st['funcs']:
        L.append('def %s(%s):' % (f['name'], f['params']))
        if f['doc']:
            L.append('    """doc of %s"""' % f['name'])
        for i in range(f['lead']):
            L.append('    tmp%d = %d' % (i, i))
        L.append('    %s %s' % (f['kind'], f['value']))
        L.append('')
    for f in st['funcs']:
        args = {'': '', 'a': '1', 'a, b=2': '1', '*args': '1, 2', 'a, *, key=None': '1, key=3'}[f['params']]
        L.append('r_%s = %s(%s)' % (f['name'], f['name'], args))
        pos.append((len(L), 2))                          # infer / goto on the result variable
        L.append('r_%s.' % f['name'])
        pos.append((len(L), len(L[-1])))                 # completion on the result
        L.append('for it_%s in %s(%s): it_%s' % (f['name'], f['name'], args, f['name']))
        pos.append((len(L), len(L[-1])))
        L.append('%s(' % f['name'])
        pos.append((len(L), len(L[-1])))                 # signature
    L.append('Box().get().')
    pos.append((len(L), len(L[-1])))
    for k, probe in enumerate(('Box().', 'Crate().', 'Box().title().', 'Crate().header().', 'Box().header',
                               'Crate.tag')):
        L.append('sep_%d = %d' % (k, k))     # a complete statement between two half-typed ones
        L.append(probe)
        pos.append((len(L), len(probe)))
    return '\n'.join(L) + '\n', pos


def edit_state(st, rnd):
    kind = rnd.choice(['toggle_kind', 'toggle_kind', 'value', 'params', 'params', 'rename', 'add',
                       'remove', 'cls_attr', 'lead', 'doc', 'toggle_header', 'toggle_header', 'crate_tag'])
    if kind == 'toggle_header':
        st['crate_header'] = not st.get('crate_header')
        return kind
    if kind == 'crate_tag':
        st['crate_tag'] = rnd.choice([v for v in VALUES[:5] if v != st.get('crate_tag')])
        return kind
    f = rnd.choice(st['funcs'])
    if kind == 'toggle_kind':
        f['kind'] = 'yield' if f['kind'] == 'return' else 'return'
    elif kind == 'value':
        f['value'] = rnd.choice([v for v in VALUES if v != f['value']])
    elif kind == 'params':
        f['params'] = rnd.choice([p for p in ['', 'a', 'a, b=2', '*args', 'a, *, key=None'] if p != f['params']])
    elif kind == 'rename':
        st['serial'] += 1
        f['name'] = 'fn%d' % st['serial']
    elif kind == 'add' and len(st['funcs']) < 6:
        add_func(st, rnd)
    elif kind == 'remove' and len(st['funcs']) > 1:
        st['funcs'].remove(f)
    elif kind == 'cls_attr':
        st['cls_attr'] = rnd.choice([v for v in VALUES[:5] if v != st['cls_attr']])
    elif kind == 'lead':
        f['lead'] = (f['lead'] + 1) % 3
    else:
        f['doc'] = not f['doc']
    return kind


def structured_history(rnd, length):
    st = new_state(rnd)
    out = [render_state(st) + ('initial',)]
    for _ in range(length):
        k = edit_state(st, rnd)
        out.append(render_state(st) + (k,))
    return out
