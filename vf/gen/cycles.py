"""Generators for C15: self-referential definition graphs and scaling families.

Each generator returns (files: {relative path: text}, main: relative path of the buffer,
uses: [(line, column)] cursor positions at which queries are asked)."""


def _uses_at_end(lines, exprs):
    """Append one line per expression; return cursor positions at the end of each."""
    uses = []
    for e in exprs:
        lines.append(e)
        uses.append((len(lines), len(e)))
    return uses


# ------------------------------------------------------------------ cyclic gadgets

def gadget(kind, n, tag, rnd):
    """Lines defining a cycle of `n` nodes of the given edge kind + expressions to query."""
    L, U = [], []
    v = lambda i: '%s_%d' % (tag, i % n)  # noqa: E731
    if kind == 'assign':
        for i in range(n):
            L.append('%s = %s' % (v(i), v(i + 1)))
        U = [v(0), v(n - 1) + '.']
    elif kind == 'assign_fwd':
        L.append('%s = 1' % v(0))
        for i in range(1, n):
            L.append('%s = %s' % (v(i), v(i + 1)))
        for i in range(n):
            L.append('%s = %s' % (v(i), v(i + 1)))
        U = [v(0), v(1) + '.']
    elif kind == 'call':
        for i in range(n):
            L += ['def %s(x=None):' % v(i), '    return %s(x)' % v(i + 1), '']
        U = [v(0) + '()', v(0) + '().', v(0) + '(']
    elif kind == 'call_unbounded':
        L += ['def %s(x):' % v(0), '    return [%s(x), %s((x, x))]' % (v(0), v(0)), '']
        U = [v(0) + '(1)', v(0) + '(1)[0].', v(0) + '(1)[1][0]']
    elif kind == 'inherit':
        for i in range(n):
            L += ['class %s(%s):' % (v(i), v(i + 1)) if i < n - 1 else 'class %s(%s_alias):' % (v(i), tag),
                  '    def m%d(self): return self' % i, '']
        L.append('%s_alias = %s' % (tag, v(0)))
        L.insert(0, '%s_alias = object' % tag)
        U = [v(0) + '().', v(n - 1) + '().m0().', v(0) + '.']
    elif kind == 'self_inherit':
        L += ['class %s: pass' % v(0), 'class %s(%s):' % (v(0), v(0)), '    def me(self): return self', '']
        U = [v(0) + '().me().', v(0) + '.']
    elif kind == 'attr':
        L += ['class %s:' % v(0), '    def __init__(self):']
        for i in range(n):
            L.append('        self.a%d = self.a%d' % (i, (i + 1) % n))
        L += ['        self.b = self', '']
        U = [v(0) + '().a0', v(0) + '().b.b.b.', v(0) + '().a%d.' % (n - 1)]
    elif kind == 'container':
        L += ['%s = []' % v(0), '%s = [%s]' % (v(0), v(0)), '%s.append(%s)' % (v(0), v(0)),
              '%s_d = {}' % tag, "%s_d = {'k': %s_d}" % (tag, tag), '%s_d["k"] = %s_d' % (tag, tag)]
        U = [v(0) + '[0][0][0]', v(0) + '[0].', '%s_d["k"]["k"].' % tag, 'for q%s in %s: q%s' % (tag, v(0), tag)]
    elif kind == 'decorator':
        for i in range(n):
            L += ['@%s' % v(i + 1), 'def %s(f):' % v(i), '    return %s(f)' % v(i + 1), '']
        U = [v(0), v(0) + '(1)', v(0) + '(1).']
    elif kind == 'property':
        L += ['class %s:' % v(0)]
        for i in range(n):
            L += ['    @property', '    def p%d(self):' % i, '        return self.p%d' % ((i + 1) % n)]
        L += ['']
        U = [v(0) + '().p0', v(0) + '().p0.']
    elif kind == 'getattr':
        for i in range(n):
            L += ['class %s:' % v(i), '    def __getattr__(self, k):',
                  '        return getattr(%s(), k)' % v(i + 1), '']
        U = [v(0) + '().zz', v(0) + '().']
    elif kind == 'generator':
        for i in range(n):
            L += ['def %s():' % v(i), '    yield from %s()' % v(i + 1), '    yield %s' % v(i + 1), '']
        U = ['next(%s())' % v(0), 'list(%s())[0].' % v(0), 'for g%s in %s(): g%s' % (tag, v(0), tag)]
    elif kind == 'lambda':
        for i in range(n):
            L.append('%s = lambda x=None: %s(x)' % (v(i), v(i + 1)))
        U = [v(0) + '()', v(0) + '().']
    elif kind == 'closure':
        L += ['def %s():' % v(0)]
        for i in range(1, n + 1):
            L.append('    ' * i + 'def inner%d():' % i)
        L.append('    ' * (n + 1) + 'return %s()' % v(0))
        for i in range(n, 0, -1):
            L.append('    ' * i + 'return inner%d()' % i)
        L.append('')
        U = [v(0) + '()', v(0) + '().']
    elif kind == 'param_default':
        for i in range(n):
            L += ['def %s(x=%s):' % (v(i), v(i + 1)) if i else 'def %s(x=None):' % v(0), '    return x', '']
        L += ['%s = %s' % (v(0), v(n - 1))]
        U = [v(0) + '()', v(n - 1) + '(']
    elif kind == 'annotation':
        for i in range(n):
            L += ["class %s:" % v(i), "    nxt: '%s'" % v(i + 1),
                  "    def step(self) -> '%s': ..." % v(i + 1), '']
        U = [v(0) + '().nxt.nxt.nxt.', v(0) + '().step().step().']
    elif kind == 'dict_self_attr':
        L += ['class %s:' % v(0), '    def __init__(self):', '        self.d = {}',
              '        self.d = dict(self.d)', '']
        U = [v(0) + '().d[0].', v(0) + '().d']
    elif kind == 'list_self_attr':
        L += ['class %s:' % v(0), '    def __init__(self):', '        self.items = []',
              '        self.items = list(self.items)', '        self.names = set(self.names)', '']
        L += ['%s_reg = []' % tag, 'def %s_f():' % tag, '    global %s_reg' % tag,
              '    %s_reg = list(%s_reg)' % (tag, tag), '']
        U = [v(0) + '().items.', v(0) + '().items[0]', 'for q%s in %s().names: q%s' % (tag, v(0), tag),
             '%s_reg[0]' % tag, v(0) + '().items']
    elif kind == 'type_comment_self':
        L += ['for %s in []:  # type: %s' % (v(0), v(0)), '    pass']
        U = [v(0), v(0) + '.']
    elif kind == 'annotation_self_call':
        L += ['def %s() -> "%s()":' % (v(0), v(0)), '    yield 1', '']
        U = [v(0) + '()', 'for q%s in %s(): q%s' % (tag, v(0), tag)]
    elif kind == 'mutual_literals':
        n = max(n, 3)
        for i in range(n):
            L += ['def %s():' % v(i), '    return {"k": (%s(), [%s()])}' % (v(i + 1), v(i + 2)), '']
        U = [v(0) + '()["k"][0]', v(0) + '()["k"][1][0].']
    elif kind == 'annotated_recursion':
        # (mutually) recursive functions and a recursive method whose return annotation cannot be
        # resolved (class of a library that is not installed, a name that does not exist)
        ann = rnd.choice(['"NoSuchName%s"' % tag, 'missing_lib_%s.Thing' % tag, '"%s_later.Node"' % tag])
        for i in range(n):
            L += ['def %s(k) -> %s:' % (v(i), ann), '    if k:', '        return %s(k - 1)' % v(i + 1),
                  '    return %s(k)' % v(i), '']
        L += ['class %s_K:' % tag, '    def walk(self, k) -> %s:' % ann, '        return self.walk(k - 1).walk(k)', '']
        U = [v(0) + '(3)', v(0) + '(3).', '%s_K().walk(2)' % tag, '%s_K().walk(2).' % tag]
    else:
        raise ValueError(kind)
    return L, U


GADGETS = ['assign', 'assign_fwd', 'call', 'call_unbounded', 'inherit', 'self_inherit', 'attr',
           'container', 'decorator', 'property', 'getattr', 'generator', 'lambda', 'closure',
           'param_default', 'annotation', 'dict_self_attr', 'list_self_attr', 'type_comment_self',
           'annotation_self_call', 'mutual_literals', 'annotated_recursion']


def cyclic_graph(rnd, max_nodes=40, getattr_max=3):
    """A buffer (plus optionally an import cycle across modules) made of several gadgets."""
    lines = []
    exprs = []
    kinds = []
    nodes = 0
    k = 0
    files = {}
    while nodes < max_nodes and k < 8:
        kind = rnd.choice(GADGETS)
        n = rnd.randint(1, 8)
        if kind == 'getattr':
            n = min(n, getattr_max)
        if kind == 'closure':
            n = min(n, 6)
        L, U = gadget(kind, n, 'g%d' % k, rnd)
        lines += L
        exprs += U
        kinds += [kind] * len(U)
        nodes += n
        k += 1
    # cross links between gadgets: an assignment cycle through names of different gadgets
    if k >= 2 and rnd.random() < 0.6:
        lines.append('link_a = link_b')
        lines.append('link_b = [link_a, %s]' % exprs[0].rstrip('.(') if exprs else 'link_b = link_a')
        exprs += ['link_a', 'link_b[0].']
        kinds += ['cross_link', 'cross_link']
    # import cycle across modules
    if rnd.random() < 0.5:
        m = rnd.randint(2, 5)
        for i in range(m):
            files['cyc%d.py' % i] = 'from cyc%d import *\nfrom cyc%d import val%d as val%d\nval_own%d = val%d\n' % (
                (i + 1) % m, (i + 1) % m, (i + 1) % m, i, i, i)
        lines.insert(0, 'from cyc0 import val0, val_own0')
        lines.insert(1, 'import cyc0')
        exprs += ['val0', 'val_own0.', 'cyc0.']
        kinds += ['import_cycle'] * 3
    uses = [u + (kd,) for u, kd in zip(_uses_at_end(lines, exprs), kinds)]
    files['main.py'] = '\n'.join(lines) + '\n'
    return files, 'main.py', uses


# ------------------------------------------------------------------ scaling families

def family(name, n):
    L, files = [], {}
    if name == 'assign_chain':
        L.append('a0 = 1')
        L += ['a%d = a%d' % (i, i - 1) for i in range(1, n + 1)]
        U = ['a%d' % n, 'a%d.' % n]
    elif name == 'call_chain':
        L += ['def f0():', '    return 1', '']
        for i in range(1, n + 1):
            L += ['def f%d():' % i, '    return f%d()' % (i - 1), '']
        U = ['f%d()' % n, 'f%d().' % n]
    elif name == 'binary_call_tree':
        L += ['def f0():', '    return 1', '']
        for i in range(1, n + 1):
            L += ['def f%d():' % i, '    return f%d() + f%d()' % (i - 1, i - 1), '']
        U = ['f%d()' % n, 'f%d().' % n]
    elif name == 'binary_tuple_tree':
        L += ['def f0():', '    return 1', '']
        for i in range(1, n + 1):
            L += ['def f%d():' % i, '    return (f%d(), f%d())' % (i - 1, i - 1), '']
        U = ['f%d()' % n, 'f%d()[0][1]' % n]
    elif name == 'diamond_ladder':
        L += ['class A0:', '    def base(self): return 1', '']
        for i in range(1, n + 1):
            L += ['class B%d(A%d): pass' % (i, i - 1), 'class C%d(A%d): pass' % (i, i - 1),
                  'class A%d(B%d, C%d):' % (i, i, i), '    def m%d(self): return self' % i, '']
        U = ['A%d().' % n, 'A%d().base()' % n, 'A%d().m%d().base' % (n, n)]
    elif name == 'tuple_projection':
        L.append("t0 = (1, 'a')")
        L += ['t%d = (t%d[1], t%d[0])' % (i, i - 1, i - 1) for i in range(1, n + 1)]
        U = ['t%d[0]' % n, 't%d[1].' % n]
    elif name == 'decorator_chain':
        for i in range(n):
            L += ['def d%d(f):' % i, '    return f', '']
        L += ['@d%d' % i for i in range(n)]
        L += ['def g():', '    return 1', '']
        U = ['g()', 'g(']
    elif name == 'reexport_chain':
        files['m0.py'] = 'x = 1\n'
        for i in range(1, n + 1):
            files['m%d.py' % i] = 'from m%d import x\n' % (i - 1)
        L += ['from m%d import x' % n]
        U = ['x', 'x.']
    elif name == 'attr_chain':
        L += ['class C:', '    def __init__(self):', '        self.a0 = 1']
        L += ['        self.a%d = self.a%d' % (i, i - 1) for i in range(1, n + 1)]
        L += ['']
        U = ['C().a%d' % n, 'C().']
    elif name == 'nested_closure':
        n = min(n, 40)
        L.append('def f0():')
        L.append('    v = 1')
        for i in range(1, n + 1):
            L.append('    ' * i + 'def f%d():' % i)
        L.append('    ' * (n + 1) + 'return v')
        for i in range(n, 0, -1):
            L.append('    ' * i + 'return f%d()' % i)
        L.append('')
        U = ['f0()', 'f0().']
    elif name == 'isinstance_chain':
        for i in range(n):
            L += ['class K%d: pass' % i]
        L += ['def pick(x):']
        for i in range(n):
            L += ['    %s isinstance(x, K%d):' % ('if' if i == 0 else 'elif', i), '        return x']
        L += ['    return None', '']
        U = ['pick(K0())', 'pick(K%d()).' % (n - 1)]
    elif name == 'append_chain':
        L += ['lst = []']
        L += ['lst.append(%d)' % i for i in range(n)]
        U = ['lst[0]', 'lst[0].']
    elif name == 'reassign_chain':
        L += ['x = 1']
        L += ['x = x + 1' for _ in range(n)]
        U = ['x', 'x.']
    elif name == 'mutual_tree':
        L += ['def a0(): return 1', 'def b0(): return ""']
        for i in range(1, n + 1):
            L += ['def a%d(): return [a%d(), b%d()]' % (i, i - 1, i - 1),
                  'def b%d(): return (b%d(), a%d())' % (i, i - 1, i - 1)]
        U = ['a%d()' % n, 'b%d()[0]' % n]
    elif name == 'inherit_chain':
        L += ['class A0:', '    def base(self): return 1', '']
        for i in range(1, n + 1):
            L += ['class A%d(A%d): pass' % (i, i - 1)]
        U = ['A%d().' % n, 'A%d().base()' % n]
    elif name == 'star_import_chain':
        files['s0.py'] = 'y = 1\n'
        for i in range(1, n + 1):
            files['s%d.py' % i] = 'from s%d import *\n' % (i - 1)
        L += ['from s%d import *' % n]
        U = ['y', 'y.']
    elif name == 'dict_chain':
        L += ["d0 = {'k': 1}"]
        L += ["d%d = {'k': d%d['k']}" % (i, i - 1) for i in range(1, n + 1)]
        U = ["d%d['k']" % n]
    elif name == 'kwargs_chain':
        L += ['def g0(**kw): return kw', '']
        for i in range(1, n + 1):
            L += ['def g%d(*a, **kw): return g%d(*a, **kw)' % (i, i - 1)]
        U = ['g%d(x=1)' % n, 'g%d(' % n]
    elif name == 'generator_chain':
        L += ['def y0():', '    yield 1', '']
        for i in range(1, n + 1):
            L += ['def y%d():' % i, '    yield from y%d()' % (i - 1), '']
        U = ['next(y%d())' % n, 'for q in y%d(): q' % n]
    elif name == 'getattr_proxy_chain':
        L += ['class P0:', '    real = 1', '']
        for i in range(1, n + 1):
            L += ['class P%d:' % i, '    def __getattr__(self, k):',
                  '        return getattr(P%d(), k)' % (i - 1), '']
        U = ['P%d().real' % n]
    else:
        raise ValueError(name)
    uses = _uses_at_end(L, U)
    files['main.py'] = '\n'.join(L) + '\n'
    return files, 'main.py', uses


FAMILIES = ['assign_chain', 'call_chain', 'binary_call_tree', 'binary_tuple_tree', 'diamond_ladder',
            'tuple_projection', 'decorator_chain', 'reexport_chain', 'attr_chain', 'nested_closure',
            'isinstance_chain', 'append_chain', 'reassign_chain', 'mutual_tree', 'inherit_chain',
            'star_import_chain', 'dict_chain', 'kwargs_chain', 'generator_chain',
            'getattr_proxy_chain']
