"""./check driver: plan cases, shard them over worker processes, run offline checkers,
classify violations against known_findings.json, write evidence, print verdict lines.

Exit codes: 0 held on everything explored (KNOWN-FINDING lines allowed);
1 at least one violation not listed as a known finding (VIOLATION line printed);
2 inconclusive (the deciding monitor evaluated nothing, or too many shards were lost).
"""
import argparse
import hashlib
import importlib
import json
import os
import pathlib
import shutil
import subprocess
import sys
import tempfile
import time

VERIF = pathlib.Path(__file__).resolve().parent.parent
PYTHON = os.environ.get('VERIF_PYTHON', '/venv/bin/python')
WHEELS = '/opt/veriftools/wheels'
DEPS = VERIF / '.deps'


def ensure_deps():
    """icontract/deal/jsonschema beside the repository's interpreter (git-ignored .deps)."""
    marker = DEPS / '.ok'
    if marker.exists():
        return
    DEPS.mkdir(exist_ok=True)
    subprocess.run(
        [PYTHON, '-m', 'pip', 'install', '--quiet', '--no-index', '--find-links', WHEELS,
         '--target', str(DEPS), 'icontract', 'deal', 'jsonschema'],
        check=False, stdout=subprocess.DEVNULL, stderr=subprocess.DEVNULL,
        env=dict(os.environ, PIP_NO_INDEX='1'))
    if (DEPS / 'icontract').exists():
        marker.write_text('ok')


def digest(obj):
    return hashlib.sha1(json.dumps(obj, sort_keys=True, default=str).encode()).hexdigest()[:16]


def load_findings(prop):
    path = VERIF / 'known_findings.json'
    if not path.exists():
        return []
    data = json.loads(path.read_text())
    return [f for f in data.get('findings', []) if f['property'] == prop]


def build_cache_template(run_dir, env):
    tpl = os.path.join(run_dir, 'cache-template')
    os.makedirs(tpl, exist_ok=True)
    e = dict(env, VERIF_CACHE_DIR=tpl)
    r = subprocess.run([PYTHON, '-m', 'vf.warm'], cwd=str(VERIF), env=e,
                       capture_output=True, text=True, timeout=300)
    if r.returncode != 0:
        sys.stderr.write('cache warm-up failed:\n' + r.stdout + r.stderr)
    return tpl


def run_workers(prop, specs, run_dir, env, jobs, timeout, attempt=0):
    """Run specs on up to `jobs` worker processes. Returns {spec id: result}, lost ids."""
    if not specs:
        return {}, []
    jobs = max(1, min(jobs, len(specs)))
    shards = [specs[i::jobs] for i in range(jobs)]
    procs = []
    for i, shard in enumerate(shards):
        sf = os.path.join(run_dir, 'shard-%d-%d.json' % (attempt, i))
        of = os.path.join(run_dir, 'out-%d-%d.jsonl' % (attempt, i))
        with open(sf, 'w') as f:
            json.dump(shard, f)
        log = open(os.path.join(run_dir, 'log-%d-%d.txt' % (attempt, i)), 'w')
        # workers run in an empty, frozen directory (path-less Scripts complete file names
        # relative to the cwd); vf is found through PYTHONPATH
        cwd = os.path.join(run_dir, 'cwd')
        os.makedirs(cwd, exist_ok=True)
        p = subprocess.Popen([PYTHON, '-m', 'vf.worker', prop, sf, of],
                             cwd=cwd, env=dict(env, PYTHONPATH=str(VERIF)), stdout=log,
                             stderr=subprocess.STDOUT)
        procs.append((p, shard, of, log))
    deadline = time.time() + timeout
    results, lost = {}, []
    for p, shard, of, log in procs:
        try:
            p.wait(timeout=max(1, deadline - time.time()))
        except subprocess.TimeoutExpired:
            p.kill()
            p.wait()
        log.close()
        if os.path.exists(of):
            with open(of) as f:
                for line in f:
                    line = line.strip()
                    if not line:
                        continue
                    try:
                        r = json.loads(line)
                    except ValueError:
                        continue
                    results[r['id']] = r
        lost.extend(s for s in shard if s['id'] not in results)
    return results, lost


def main(argv=None):
    ap = argparse.ArgumentParser()
    ap.add_argument('property')
    ap.add_argument('--tier', default=os.environ.get('VERIF_TIER', 'quick'),
                    choices=['quick', 'thorough'])
    ap.add_argument('--seed', type=int, default=int(os.environ.get('VERIF_SEED', '0') or 0))
    ap.add_argument('--jobs', type=int, default=int(os.environ.get('VERIF_JOBS', '16')))
    ap.add_argument('--replay')
    ap.add_argument('--keep', action='store_true')
    ap.add_argument('--limit', type=int, default=0, help='debug: only first N cases')
    ap.add_argument('--no-evidence', action='store_true')
    ap.add_argument('--only', default='', help='debug: only cases whose id contains this')
    args = ap.parse_args(argv)
    prop = args.property.upper()
    t0 = time.time()
    ensure_deps()

    base = os.environ.get('VERIF_RUN_BASE', '/var/tmp')
    run_dir = tempfile.mkdtemp(prefix='verif-run-%s-' % prop, dir=base)
    env = dict(os.environ)
    env.update(VERIF_RUN_DIR=run_dir, PYTHONHASHSEED=env.get('VERIF_HASHSEED', '0'),
               VERIF_SEED=str(args.seed), VERIF_TIER=args.tier,
               PYTHONDONTWRITEBYTECODE='1')
    env.pop('PYTHONPATH', None)
    code = 2
    try:
        env['VERIF_CACHE_TEMPLATE'] = build_cache_template(run_dir, env)
        os.environ.update({k: env[k] for k in
                           ('VERIF_RUN_DIR', 'VERIF_CACHE_TEMPLATE', 'VERIF_SEED', 'VERIF_TIER')})
        sys.path.insert(0, str(VERIF))
        mod = importlib.import_module('vf.props.' + prop.lower())
        code = _run(mod, prop, args, run_dir, env, t0)
    finally:
        if not args.keep:
            shutil.rmtree(run_dir, ignore_errors=True)
        else:
            print('run directory kept:', run_dir)
    return code


def _run(mod, prop, args, run_dir, env, t0):
    findings = load_findings(prop)
    open_keys = {f['key']: f for f in findings if f.get('status', 'open') == 'open'}

    if args.replay:
        rep = json.loads(pathlib.Path(args.replay).read_text())
        specs = [rep['spec']]
    else:
        specs = mod.plan(args.tier, args.seed)
        if args.only:
            specs = [s for s in specs if args.only in s['id']]
        if args.limit:
            specs = specs[:args.limit]
    ids = set()
    for s in specs:
        assert s['id'] not in ids, 'duplicate case id %s' % s['id']
        ids.add(s['id'])

    timeout = getattr(mod, 'TIMEOUT', {'quick': 900, 'thorough': 7200})[args.tier]
    jobs = min(args.jobs, getattr(mod, 'MAX_JOBS', 16))
    results, lost = run_workers(prop, specs, run_dir, env, jobs, timeout, 0)
    lost_final = []
    if lost:
        # The case that was running when a worker died is unknown: retry every lost case
        # alone-ish (fresh workers); a case lost twice is inconclusive.
        r2, lost_final = run_workers(prop, lost, run_dir, env, jobs, timeout, 1)
        results.update(r2)

    ordered = [results[s['id']] for s in specs if s['id'] in results]
    extra = {}
    if hasattr(mod, 'finalize'):
        extra = mod.finalize(specs, ordered, {'run_dir': run_dir, 'tier': args.tier,
                                              'seed': args.seed, 'env': env}) or {}

    # ---- aggregate
    events, incon = {}, {}
    violations = []
    nontrivial = set()
    samples = []
    for r in ordered:
        for k, v in r.get('events', {}).items():
            events[k] = events.get(k, 0) + v
        for reason in r.get('inconclusive', []):
            incon[reason] = incon.get(reason, 0) + 1
        if r.get('nontrivial'):
            nontrivial.add(r.get('digest') or r['id'])
        for v in r.get('violations', []):
            violations.append((r['id'], v))
        if r.get('sample') is not None and len(samples) < 6:
            samples.append(r['sample'])
    for v in extra.get('violations', []):
        violations.append((v.get('case', 'finalize'), v))
    for k, v in extra.get('events', {}).items():
        events[k] = events.get(k, 0) + v
    for reason, n in extra.get('inconclusive', {}).items():
        incon[reason] = incon.get(reason, 0) + n
    if extra.get('nontrivial'):
        nontrivial.update(extra['nontrivial'])
    samples.extend(extra.get('samples', [])[:4])
    for s in lost_final:
        incon['worker lost twice'] = incon.get('worker lost twice', 0) + 1

    spec_by_id = {s['id']: s for s in specs}
    known_hit, unknown = {}, []
    for cid, v in violations:
        if v['key'] in open_keys:
            known_hit.setdefault(v['key'], []).append((cid, v))
        else:
            unknown.append((cid, v))

    out_lines = []
    for key, f in sorted(open_keys.items()):
        if key in known_hit:
            out_lines.append('KNOWN-FINDING: property=%s %s — %s (%d occurrence(s) this run)'
                             % (prop, key, f.get('description', ''), len(known_hit[key])))
        else:
            out_lines.append('note: listed finding not reproduced this run: property=%s %s'
                             % (prop, key))
    vio_dir = VERIF / 'violations'
    seen_keys = {}
    for cid, v in unknown:
        seen_keys.setdefault(v['key'], []).append((cid, v))
    for key, lst in sorted(seen_keys.items()):
        cid, v = lst[0]
        vio_dir.mkdir(exist_ok=True)
        path = vio_dir / ('%s-%s.json' % (prop, digest([key, spec_by_id.get(cid)])))
        path.write_text(json.dumps({'property': prop, 'key': key, 'count': len(lst),
                                    'spec': spec_by_id.get(cid), 'violation': v,
                                    'tier': args.tier, 'seed': args.seed}, indent=1,
                                   default=str))
        out_lines.append('VIOLATION property=%s replay=%s' % (prop, path))
        out_lines.append('  key: %s (x%d)\n  %s' % (key, len(lst), str(v.get('msg', ''))[:600]))

    n_eval = len(ordered)
    deciding = sum(events.get(k, 0) for k in getattr(mod, 'DECIDING', [])) \
        if getattr(mod, 'DECIDING', None) else len(nontrivial)
    inconclusive_run = (n_eval == 0 or deciding == 0 or len(nontrivial) < 2
                        or len(lost_final) > max(1, len(specs) // 10))
    for m in extra.get('inconclusive_run', []):
        inconclusive_run = True
        out_lines.append('INCONCLUSIVE: ' + m)

    wall = time.time() - t0
    if not args.no_evidence and not args.replay:
        ev = {
            'property_id': prop, 'tier': args.tier, 'seed': args.seed,
            'level': getattr(mod, 'LEVEL', 'exploration'),
            'coverage': dict({
                'evaluations': n_eval,
                'distinct_nontrivial': len(nontrivial),
                'rule': mod.RULE,
                'samples': samples or [{'note': 'no sample recorded'}],
                'monitor_events': dict(sorted(events.items())),
                'inconclusive': incon,
                'cases_planned': len(specs),
                'cases_lost': len(lost_final),
                'known_findings_hit': {k: len(v) for k, v in known_hit.items()},
            }, **extra.get('coverage', {})),
            'assumptions': getattr(mod, 'ASSUMPTIONS', []),
            'wall_s': round(wall, 2),
            'violations': len(unknown),
        }
        (VERIF / 'evidence').mkdir(exist_ok=True)
        (VERIF / 'evidence' / (prop + '.json')).write_text(
            json.dumps(ev, indent=1, default=str) + '\n')
        _validate(ev)

    slow = sorted(ordered, key=lambda r: -r.get('wall_s', 0))[:3]
    print('  slowest cases:', ', '.join('%s=%.1fs' % (r['id'], r.get('wall_s', 0)) for r in slow))
    print('%s tier=%s seed=%d cases=%d/%d nontrivial=%d deciding_events=%d lost=%d wall=%.1fs'
          % (prop, args.tier, args.seed, n_eval, len(specs), len(nontrivial), deciding,
             len(lost_final), wall))
    top = sorted(events.items(), key=lambda kv: -kv[1])[:12]
    print('  monitor events:', ', '.join('%s=%d' % kv for kv in top))
    if incon:
        print('  inconclusive:', incon)
    for line in out_lines:
        print(line)
    if unknown:
        return 1
    if inconclusive_run:
        print('INCONCLUSIVE property=%s (deciding monitor evaluated too little, or shards lost)'
              % prop)
        return 2
    print('HELD property=%s on everything explored' % prop)
    return 0


def _validate(ev):
    try:
        sys.path.insert(0, str(DEPS))
        import jsonschema
        schema = json.loads(pathlib.Path('/root/.vp/EVIDENCE.schema.json').read_text())
        jsonschema.validate(ev, schema)
    except ImportError:
        pass
    except FileNotFoundError:
        pass
    finally:
        if str(DEPS) in sys.path:
            sys.path.remove(str(DEPS))


if __name__ == '__main__':
    sys.exit(main())
