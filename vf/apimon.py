"""API monitor: drives the public jedi API and lets online monitors watch every call,
every returned object and every attribute of it.

A `Recorder` collects counters (`events`), the call history and violations.  The three
online monitors that ride on every execution are
  * the exception contract (C01): only ValueError, and exactly for out-of-range positions;
  * the completion algebra (C04): prefix / suffix / uniqueness / order of every list;
  * position faithfulness (C17): text at (line, column) is the name, range encloses it,
    get_line_code() is that line.
Each only *records*; which property a check decides is chosen by the property module.
"""
import os
import re
import traceback

import parso

from vf import work

QUERY_BUDGET = int(os.environ.get('VERIF_QUERY_BUDGET', work.DEFAULT_BUDGET))


class Recorder:
    def __init__(self):
        self.events = {}
        self.violations = []
        self.history = []
        self.max_history = 60
        self._per_key = {}

    def ev(self, name, n=1):
        self.events[name] = self.events.get(name, 0) + n

    def violate(self, key, msg, **witness):
        self.ev('violations_raw')
        # keep at most 4 witnesses per mechanism key and case (so that a frequent known
        # finding cannot crowd out a different violation of the same case)
        n = self._per_key.get(key, 0)
        self._per_key[key] = n + 1
        if n < 4 and len(self.violations) < 200:
            self.violations.append({'key': key, 'msg': msg, 'witness': witness})

    def log(self, entry):
        if len(self.history) < self.max_history:
            self.history.append(entry)


# --------------------------------------------------------------- exception keys

def jedi_frame(exc):
    """(module, function) of the innermost traceback frame inside jedi (or parso)."""
    tb = exc.__traceback__
    best = None
    outer = None
    while tb is not None:
        fn = tb.tb_frame.f_code.co_filename
        if '/jedi/' in fn and '/vf/' not in fn:
            best = (fn.split('/jedi/', 1)[1], tb.tb_frame.f_code.co_name)
        elif '/parso/' in fn:
            outer = ('parso/' + fn.split('/parso/', 1)[1], tb.tb_frame.f_code.co_name)
        tb = tb.tb_next
    return best or outer or ('?', '?')


def entry_family(family):
    """API entry point family of a call: the Script method, or for attributes of returned
    objects the attribute alone (`get_type_hint()`), whatever query produced the object."""
    if '>' in family:
        family = family.split('>', 1)[1]
        family = family.split('.', 1)[1] if '.' in family else family
    return family


def exc_key(exc, family):
    mod, func = jedi_frame(exc)
    return 'exc:%s@%s:%s' % (type(exc).__name__, mod, func)


def position_in_range(code, line, column):
    """Restatement of the documented rule: 1 <= line <= #lines, 0 <= column <= len(line)."""
    lines = parso.split_lines(code, keepends=True)
    if not lines:
        lines = ['']
    if not isinstance(line, int) or not isinstance(column, int):
        return False
    if not 1 <= line <= len(lines):
        return False
    text = lines[line - 1]
    if text.endswith('\r\n'):
        text = text[:-2]
    elif text.endswith('\n') or text.endswith('\r'):
        text = text[:-1]
    return 0 <= column <= len(text)


# --------------------------------------------------------------- calls

def call(rec, family, fn, *args, expect_valueerror=None, witness=None, **kwargs):
    """Invoke fn under the exception contract and the work budget.

    expect_valueerror: None = position validity not applicable / in range (no exception
    allowed), True = out of range (ValueError and nothing else, a return is a violation).
    Returns (ok, result)."""
    rec.ev('call:' + entry_family(family))
    try:
        work.COUNTER.begin(QUERY_BUDGET)
        try:
            result = fn(*args, **kwargs)
        finally:
            w = work.COUNTER.end()
        rec.ev('work', w)
    except ValueError as e:
        if expect_valueerror:
            rec.ev('c01:valueerror_out_of_range')
            return False, None
        rec.ev('c01:escape')
        rec.violate(exc_key(e, family), 'ValueError for an in-range request: %r' % (e,),
                    family=family, trace=_short_tb(e), **(witness or {}))
        return False, None
    except work.WorkBudgetExceeded as e:
        rec.ev('c15:budget_exceeded')
        rec.violate('budget:%s' % family, 'work budget exceeded in %s' % family,
                    family=family, **(witness or {}))
        return False, None
    except Exception as e:
        from jedi.api.exceptions import RefactoringError
        if isinstance(e, RefactoringError) and family.startswith('refactor'):
            rec.ev('refactoring_refused')
            return False, e
        rec.ev('c01:escape')
        rec.violate(exc_key(e, family), '%s: %s' % (type(e).__name__, str(e)[:300]),
                    family=family, trace=_short_tb(e), **(witness or {}))
        return False, None
    if expect_valueerror:
        rec.ev('c01:escape')
        rec.violate('novalueerror:%s' % family,
                    'out-of-range position accepted by %s' % family,
                    family=family, **(witness or {}))
        return False, None
    rec.ev('c01:ok')
    return True, result


def _short_tb(e):
    return ''.join(traceback.format_exception(type(e), e, e.__traceback__))[-1800:]


# --------------------------------------------------------------- attribute sweep

BASE_ATTRS = ['name', 'type', 'module_name', 'module_path', 'line', 'column',
              'description', 'full_name']
BASE_METHODS = [
    ('docstring', {}), ('docstring', {'raw': True}), ('docstring', {'fast': False}),
    ('get_line_code', {}), ('get_line_code', {'before': 1, 'after': 1}),
    ('is_stub', {}), ('in_builtin_module', {}), ('is_side_effect', {}),
    ('get_definition_start_position', {}), ('get_definition_end_position', {}),
    ('get_type_hint', {}), ('__repr__', {}),
]
DEEP_METHODS = [('parent', {}), ('goto', {}), ('infer', {}), ('get_signatures', {}),
                ('execute', {}), ('goto', {'follow_imports': True})]


def sweep(rec, objs, family, witness, monitors=(), cap=40, deep=True, text_of=None):
    """Exercise every documented attribute of returned objects; run `monitors` on each.
    Deep methods (parent/goto/infer/...) are run on a thinner sample: they cost a query."""
    from jedi.api import classes
    if objs is None:
        return
    if not isinstance(objs, (list, tuple)):
        objs = [objs]
    for i, o in enumerate(objs[:cap]):
        if isinstance(o, classes.BaseName):
            _sweep_name(rec, o, family, witness, deep and i < 6, monitors, text_of)
        elif hasattr(o, 'get_message'):
            for a in ('line', 'column', 'until_line', 'until_column'):
                _attr(rec, o, a, family, witness)
            _meth(rec, o, 'get_message', {}, family, witness)
            _meth(rec, o, '__repr__', {}, family, witness)
            rec.ev('swept:SyntaxError')


def _attr(rec, o, a, family, witness):
    ok, v = call(rec, family + '.' + a, getattr, o, a, witness=witness)
    return v if ok else None


def _meth(rec, o, m, kw, family, witness):
    ok, fn = call(rec, family + '.' + m, getattr, o, m, witness=witness)
    if not ok:
        return None
    ok, v = call(rec, family + '.' + m + '()', fn, witness=dict(witness or {}, kwargs=kw), **kw)
    return v if ok else None


def _sweep_name(rec, o, family, witness, deep, monitors, text_of):
    from jedi.api import classes
    cls = type(o).__name__
    rec.ev('swept:' + cls)
    w = dict(witness or {})
    w['obj'] = cls
    fam = family + '>' + cls
    vals = {}
    for a in BASE_ATTRS:
        vals[a] = _attr(rec, o, a, fam, w)
    w['obj_name'] = vals.get('name')
    for m, kw in BASE_METHODS:
        r = _meth(rec, o, m, kw, fam, w)
        vals[m + ('' if not kw else repr(sorted(kw.items())))] = r
    if isinstance(o, classes.Completion):
        for a in ('complete', 'name_with_symbols'):
            vals[a] = _attr(rec, o, a, fam, w)
        vals['prefix_len'] = _meth(rec, o, 'get_completion_prefix_length', {}, fam, w)
    if isinstance(o, classes.Name):
        vals['is_definition'] = _meth(rec, o, 'is_definition', {}, fam, w)
        if deep:
            _meth(rec, o, 'defined_names', {}, fam, w)
    if isinstance(o, classes.BaseSignature):
        params = _attr(rec, o, 'params', fam, w) or []
        _meth(rec, o, 'to_string', {}, fam, w)
        for p in params[:8]:
            for a in ('name', 'kind', 'description'):
                _attr(rec, p, a, fam + '.param', w)
            _meth(rec, p, 'to_string', {}, fam + '.param', w)
            if deep:
                _meth(rec, p, 'infer_default', {}, fam + '.param', w)
                _meth(rec, p, 'infer_annotation', {}, fam + '.param', w)
    if isinstance(o, classes.Signature):
        vals['index'] = _attr(rec, o, 'index', fam, w)
        vals['bracket_start'] = _attr(rec, o, 'bracket_start', fam, w)
    if deep:
        for m, kw in DEEP_METHODS:
            _meth(rec, o, m, kw, fam, w)
    for mon in monitors:
        mon(rec, o, vals, w, text_of)


# --------------------------------------------------------------- C17 online monitor

def position_monitor(rec, o, vals, w, text_of):
    """Text at (line, column) is the name; definition range encloses it; get_line_code()."""
    if text_of is None:
        return
    path, line, col, name = vals.get('module_path'), vals.get('line'), vals.get('column'), \
        vals.get('name')
    if line is None or col is None or name is None:
        return
    text = text_of(path)
    if text is None:
        return
    if vals.get('type') in ('module', 'namespace') and (line, col) == (1, 0):
        # A module itself has no name token: jedi reports the start of the file, (1, 0).
        # The statement's "text at line/column is its name" cannot apply to that convention;
        # it is recorded, not charged (import names of type module elsewhere are checked).
        first = parso.split_lines(text, keepends=True)[0] if text else ''
        if not first.startswith(name):
            rec.ev('c17:module_start_convention_not_claimed')
            return
    if name == '<lambda>':
        # an anonymous function has no name token; jedi points at the `lambda` keyword.  Like the
        # (1, 0) convention for modules this is recorded, and only the keyword is checked.
        rec.ev('c17:lambda_convention_not_claimed')
        lines_ = parso.split_lines(text, keepends=True)
        if not (1 <= line <= len(lines_)) or not lines_[line - 1][col:].startswith('lambda'):
            rec.violate('c17:lambda_position', '<lambda> reported at %s:%s, which is not a lambda keyword'
                        % (line, col), **w)
        return
    rec.ev('c17:positions_checked')
    lines = parso.split_lines(text, keepends=True)
    if not 1 <= line <= len(lines):
        rec.violate('c17:line_out_of_file', '%s reported at line %s of a %d-line text'
                    % (name, line, len(lines)), **w)
        return
    ltext = lines[line - 1]
    at = ltext[col:col + len(name)]
    if at != name:
        key = 'c17:text_differs'
        if name.endswith('=') and ltext[col:col + len(name) - 1] == name[:-1]:
            key = 'c17:name_with_equals_suffix'
        elif ltext[col:col + len(name) + 2] == '__' + name:
            key = 'c17:leading_dunder_stripped'
        elif ltext[max(0, col):].startswith('__') and ltext[col + 2:col + 2 + len(name)] == name:
            key = 'c17:leading_dunder_stripped'
        rec.violate(key, 'name %r reported at %s:%s where the text is %r'
                    % (name, line, col, ltext[col:col + len(name) + 4]), line_text=ltext, **w)
    elif (re.match(r'\w', ltext[col + len(name):col + len(name) + 1] or ' ')
          or (col > 0 and re.match(r'\w', ltext[col - 1]))) and name.isidentifier():
        # e.g. `1e`: parso's error recovery splits it into a number and a name.  The statement
        # only asks that the text at the position is the name: recorded, not charged.
        rec.ev('c17:name_adjacent_to_word_characters_recorded')
    start = vals.get('get_definition_start_position')
    end = vals.get('get_definition_end_position')
    if start is not None and end is not None:
        rec.ev('c17:ranges_checked')
        if not (tuple(start) <= (line, col) <= tuple(end)):
            rec.violate('c17:range_not_enclosing', 'range %s..%s does not enclose %s:%s of %r'
                        % (start, end, line, col, name), **w)
    lc = vals.get('get_line_code')
    if lc is not None:
        rec.ev('c17:line_code_checked')
        if lc != ltext:
            rec.violate('c17:line_code_differs', 'get_line_code() %r != line %d %r'
                        % (lc, line, ltext), **w)
    lc3 = vals.get("get_line_code[('after', 1), ('before', 1)]")
    if lc3 is not None:
        exp = ''.join(lines[max(0, line - 2):line + 1])
        rec.ev('c17:line_code_checked')
        if lc3 != exp:
            rec.violate('c17:line_code_context_differs',
                        'get_line_code(1,1) %r != %r' % (lc3, exp), **w)


# --------------------------------------------------------------- C04 online monitor

_IDENT = re.compile(r'^[^\W\d]\w*$')


def fuzzy_subseq(frag, name):
    it = iter(name.lower())
    return all(ch in it for ch in frag.lower())


def sort_key_model(name, frag):
    """The documented order: matching case first, then public, _private, __dunder__, alpha."""
    return (not name.startswith(frag), name.startswith('__'), name.startswith('_'),
            name.lower())


def completion_algebra(rec, comps, code, line, column, fuzzy, w, expected_fragment=None):
    """Check one completion list returned at (line, column) of `code`."""
    lines = parso.split_lines(code, keepends=True)
    before = lines[line - 1][:column] if 1 <= line <= len(lines) else ''
    rec.ev('c04:lists')
    seen = set()
    ident_entries = []
    for c in comps:
        try:
            name, comp, nws = c.name, c.complete, c.name_with_symbols
            n = c.get_completion_prefix_length()
        except Exception:
            continue  # the exception contract reports this
        rec.ev('c04:completions')
        frag = before[len(before) - n:] if n else ''
        special = not _IDENT.match(name.rstrip('=('))  # dict keys, file names, quotes
        if n > len(before):
            rec.violate('c04:prefix_longer_than_line', 'prefix length %d > column %d' % (n, column),
                        name=name, **w)
            continue
        if expected_fragment is not None and not special:
            rec.ev('c04:fragment_identity_checked')
            if n != len(expected_fragment):
                rec.violate('c04:prefix_length_not_fragment',
                            'prefix length %d but the identifier fragment before the cursor is %r'
                            % (n, expected_fragment), name=name, **w)
        if fuzzy:
            if comp is not None:
                rec.violate('c04:fuzzy_complete_not_none', 'fuzzy completion %r has complete=%r'
                            % (name, comp), **w)
            if not special and not fuzzy_subseq(frag, name):
                rec.violate('c04:fuzzy_not_subsequence', '%r is not a subsequence of %r'
                            % (frag, name), **w)
        else:
            if not special and name[:n].lower() != frag.lower():
                rec.violate('c04:not_an_extension', 'completion %r does not start with the '
                            'fragment %r' % (name, frag), **w)
            if comp is None or comp != nws[n:]:
                rec.violate('c04:complete_not_suffix', 'complete %r != name_with_symbols %r [%d:]'
                            % (comp, nws, n), name=name, **w)
        if not (nws == name or (nws.startswith(name) and nws[len(name):] in ('=', '('))):
            rec.violate('c04:name_with_symbols_shape', 'name_with_symbols %r vs name %r'
                        % (nws, name), **w)
        pair = (name, comp)
        if pair in seen:
            rec.violate('c04:duplicate:dict_key_completion' if special else 'c04:duplicate',
                        'pair %r occurs twice' % (pair,), **w)
        seen.add(pair)
        if not special:
            ident_entries.append((name, frag))
    # order among identifier-like entries (dict-key and file-name completions, which jedi
    # documents as going first, are not identifier completions: when the fragment follows a
    # bracket or quote the order clause is not claimed)
    n0 = len(ident_entries[0][1]) if ident_entries else 0
    lead = before[:len(before) - n0].rstrip()
    if lead[-1:] in ('[', '"', "'"):
        rec.ev('c04:orders_skipped_dictkey_context')
    elif len(ident_entries) > 1:
        rec.ev('c04:orders_checked')
        keys = [sort_key_model(nm, fr) for nm, fr in ident_entries]
        for a, b, ea, eb in zip(keys, keys[1:], ident_entries, ident_entries[1:]):
            if a > b:
                rec.violate('c04:order', 'completion %r sorted before %r' % (ea[0], eb[0]),
                            keys=[list(a), list(b)], **w)
                break


# --------------------------------------------------------------- jedi's own give-up warnings

class LimitWatch:
    """Collects jedi's debug warnings about its documented give-up limits (execution depth /
    count / per-function limits, per-node inference cap) while a query runs.  Properties that
    are quantified over programs "of bounded size so that the give-up limits are not hit"
    (C02, C04 completeness) treat a probe whose query hit a limit as inconclusive."""

    def __init__(self):
        self.hits = []

    def _cb(self, color, text):
        if 'imit' in text and 'reached' in text or 'In value' in text and 'too many' in text:
            self.hits.append(text.strip()[:120])

    def __enter__(self):
        import jedi
        self.hits = []
        jedi.set_debug_function(self._cb, warnings=True, notices=False, speed=False)
        return self

    def __exit__(self, *exc):
        import jedi
        jedi.set_debug_function(None)
        return False
