"""Process bootstrap shared by every worker and oracle process.

Importing this module makes `jedi` importable from the tree under test
($VERIF_REPO, default /repo), points jedi at the typeshed copy vendored in
/verif/vendor (the sandbox checkout has an empty typeshed submodule) and gives the
process a private parso cache directory.  Nothing in /repo is touched.
"""
import os
import pathlib
import shutil
import sys
import tempfile

VERIF = pathlib.Path(__file__).resolve().parent.parent
REPO = pathlib.Path(os.environ.get('VERIF_REPO', '/repo')).resolve()
TYPESHED = VERIF / 'vendor' / 'typeshed'
PYTHON = os.environ.get('VERIF_PYTHON', '/venv/bin/python')

# jedi (tree under test) first, then /verif itself (for `vf`), then icontract & co.
for p in (str(VERIF / '.deps'), str(VERIF), str(REPO)):
    while p in sys.path:
        sys.path.remove(p)
    sys.path.insert(0, p)

import jedi  # noqa: E402
from jedi.inference.gradual import typeshed as _ts  # noqa: E402
from jedi.inference.gradual import utils as _tsu  # noqa: E402

assert pathlib.Path(jedi.__file__).resolve().is_relative_to(REPO), \
    'jedi imported from %s, expected below %s' % (jedi.__file__, REPO)

_ts.TYPESHED_PATH = TYPESHED
_tsu.TYPESHED_PATH = TYPESHED


def private_cache(template=None, where=None):
    """Give this process its own parso pickle directory (a real copy of `template`)."""
    where = where or os.environ.get('VERIF_RUN_DIR') or tempfile.gettempdir()
    d = tempfile.mkdtemp(prefix='cache-', dir=where)
    template = template or os.environ.get('VERIF_CACHE_TEMPLATE')
    if template and os.path.isdir(template):
        shutil.rmtree(d)
        shutil.copytree(template, d)
    jedi.settings.cache_directory = d
    return d


if os.environ.get('VERIF_CACHE_DIR'):
    jedi.settings.cache_directory = os.environ['VERIF_CACHE_DIR']
elif not os.environ.get('VERIF_NO_PRIVATE_CACHE'):
    private_cache()
