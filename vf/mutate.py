"""Text mutators (code that is being typed) and cursor-position samplers."""
import io
import keyword
import tokenize

HOSTILE = ['(', ')', '[', ']', '{', '}', ':', '.', ',', '=', '*', '**', '->', '@', ';',
           ' if ', ' else ', ' for ', ' in ', ' lambda ', ' import ', ' from ', ' def ',
           ' class ', ' return ', ' yield ', ' await ', ' async ', ' with ', ' as ',
           ' not ', ' is ', ' and ', ' or ', ' del ', ' global ', ' nonlocal ', ' try:',
           ' except ', ' raise ', ' match ', ' case ', ':=', '...', '"', "'", '"""', "'''",
           'f"', "f'{", '{', 'b"', 'r"', '\\\n', '\t', '\x0c', '\r', '\r\n', '\n', ' ', '    ',
           'é', 'ß', 'λ', '日本', '﻿', '0', '1e', '0x', '1_', '$', '?', '!', '`', '#',
           'self.', 'x.', '().', '[0].', 'print(', 'str(', 'os.', 'import os\n', 'None',
           '*args', '**kwargs', '@property\n', 'super().', '__', '__init__', ' ', '\x00']

TOKENS = [k + ' ' for k in keyword.kwlist] + HOSTILE + ['a', 'b', 'foo', 'bar', 'x1', '_', '__x',
                                                        'int', 'str', 'list', 'dict', 'len']


def mutate(text, rnd):
    """One random small edit; returns (new text, edit offset)."""
    kind = rnd.choice(['prefix', 'prefix_tok', 'delete', 'insert', 'replace', 'dupline',
                       'dropline', 'indent', 'dedent', 'swap', 'insert', 'prefix', 'trunc_line',
                       'crlf', 'cr', 'nofinalnl'])
    n = len(text)
    if n == 0:
        return rnd.choice(HOSTILE), 0
    lines = text.splitlines(keepends=True)
    if kind == 'prefix':
        k = rnd.randrange(n + 1)
        return text[:k], max(0, k - 1)
    if kind == 'prefix_tok':
        # cut right after a '.', '(' or ',' or inside an identifier
        cands = [i + 1 for i, ch in enumerate(text) if ch in '.(,[=']
        if not cands:
            return text[:rnd.randrange(n + 1)], 0
        k = rnd.choice(cands)
        return text[:k], k
    if kind == 'delete':
        k = rnd.randrange(n)
        m = rnd.randint(1, 8)
        return text[:k] + text[k + m:], k
    if kind == 'insert':
        k = rnd.randrange(n + 1)
        s = ''.join(rnd.choice(HOSTILE) for _ in range(rnd.randint(1, 3)))
        return text[:k] + s + text[k:], k + len(s)
    if kind == 'replace':
        k = rnd.randrange(n)
        m = rnd.randint(1, 8)
        s = rnd.choice(HOSTILE)
        return text[:k] + s + text[k + m:], k + len(s)
    if kind == 'trunc_line':
        i = rnd.randrange(len(lines))
        l = lines[i]
        k = rnd.randrange(len(l) + 1)
        lines[i] = l[:k] + ('\n' if l.endswith('\n') else '')
        return ''.join(lines), sum(map(len, lines[:i])) + k
    i = rnd.randrange(len(lines))
    off = sum(map(len, lines[:i]))
    if kind == 'dupline':
        lines.insert(i, lines[i])
    elif kind == 'dropline':
        del lines[i]
    elif kind == 'indent':
        for j in range(i, min(len(lines), i + rnd.randint(1, 5))):
            lines[j] = '    ' + lines[j]
    elif kind == 'dedent':
        for j in range(i, min(len(lines), i + rnd.randint(1, 5))):
            lines[j] = lines[j][4:] if lines[j].startswith('    ') else lines[j].lstrip(' ')
    elif kind == 'swap' and len(lines) > 1:
        j = rnd.randrange(len(lines))
        lines[i], lines[j] = lines[j], lines[i]
    elif kind == 'crlf':
        return text.replace('\r\n', '\n').replace('\n', '\r\n'), off
    elif kind == 'cr':
        return text.replace('\r\n', '\n').replace('\n', '\r'), off
    elif kind == 'nofinalnl':
        return text.rstrip('\r\n'), max(0, n - 2)
    return ''.join(lines), off


def token_soup(rnd, n=None):
    n = n or rnd.randint(3, 60)
    out = []
    for _ in range(n):
        out.append(rnd.choice(TOKENS))
        if rnd.random() < 0.25:
            out.append(rnd.choice([' ', '\n', '\n    ', '']))
    return ''.join(out)


def offset_to_pos(text, off):
    import parso
    lines = parso.split_lines(text[:off], keepends=True) or ['']
    # split_lines returns a trailing '' after a final newline
    return len(lines), len(lines[-1])


def line_lengths(text):
    import parso
    out = []
    for l in parso.split_lines(text, keepends=True) or ['']:
        if l.endswith('\r\n'):
            l = l[:-2]
        elif l.endswith('\n') or l.endswith('\r'):
            l = l[:-1]
        out.append(len(l))
    return out or [0]


def positions(text, rnd, k, near=None):
    """k in-range positions biased to identifier ends, after dots/brackets and `near`."""
    lens = line_lengths(text)
    out = []
    import parso
    lines = parso.split_lines(text, keepends=True) or ['']
    interesting = []
    for li, l in enumerate(lines[:400], 1):
        for ci, ch in enumerate(l[:lens[li - 1]]):
            nxt = l[ci + 1:ci + 2]
            if ch in '.(,[' or ((ch.isalnum() or ch == '_') and not (nxt.isalnum() or nxt == '_')):
                interesting.append((li, ci + 1))
    if near is not None:
        ln, col = offset_to_pos(text, min(near, len(text)))
        ln = min(ln, len(lens))
        for d in (0, -1, 1):
            c = col + d
            if 0 <= c <= lens[ln - 1]:
                out.append((ln, c))
    while len(out) < k:
        r = rnd.random()
        if interesting and r < 0.6:
            out.append(rnd.choice(interesting))
        elif r < 0.7:
            ln = len(lens)
            out.append((ln, lens[-1]))
        else:
            ln = rnd.randint(1, len(lens))
            out.append((ln, rnd.randint(0, lens[ln - 1])))
    return out[:k]


def outside_positions(text, rnd):
    """Just-outside positions. On a line ended by a bare CR jedi counts the CR as a column
    (parso splits there, validate_line_column strips only LF/CRLF); whether the column after
    the CR is "inside the text" is not settled by the property, so it is not claimed: the
    first column used on such lines is one further out."""
    import parso
    lens = line_lengths(text)
    raw = parso.split_lines(text, keepends=True) or ['']
    n = len(lens)
    ln = rnd.randint(1, n)

    def beyond(i):
        return lens[i - 1] + (2 if raw[i - 1].endswith('\r') else 1)
    return [(0, 0), (n + 1, 0), (ln, -1), (ln, beyond(ln)), (n, beyond(n)),
            (-1, 0), (n + 7, 3)]


def ident_tokens(text):
    """NAME tokens (non-keyword) via the standard library tokenizer, or None."""
    try:
        toks = list(tokenize.generate_tokens(io.StringIO(text).readline))
    except Exception:   # any tokenizer failure (null bytes even raise SystemError): no ground truth
        return None
    return [(t.start[0], t.start[1], t.string) for t in toks
            if t.type == tokenize.NAME]
