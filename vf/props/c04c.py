"""C04, completeness clause: after `expr.` where expr evaluated at run time to an instance or
class defined in the analysed sources, every source-defined attribute the object really has
(vars() along the source part of the MRO + instance __dict__) is offered."""
import os
import random

import jedi

from vf import apimon
from vf.gen import valueflow as vfl
from vf.props import c02

SIZES = {'quick': 50, 'thorough': 400}
PER_CASE = 5


def plan(tier, seed):
    return [{'id': 'c04c-%d' % i, 'kind': 'program', 'seed': '%s/C04c/%d' % (seed, i)}
            for i in range(SIZES[tier])]


def probe_inside_methods(rec, rnd, files, case_dir, project, res, spec, k):
    """`self.` typed as the first statement of a method (asked before anything else about the
    file): every class-level attribute the executed class really has along the source part of
    its MRO must be offered.  Methods defined inside try/if/for/with blocks of the class body
    are preferred."""
    import ast
    cattrs = res['obs'].get('class_attrs') or {}
    rel = 'lib.py' if 'lib.py' in files else 'main.py'
    text = files[rel]
    lines = text.split('\n')
    cands = []
    for cls in ast.parse(text).body:
        if not isinstance(cls, ast.ClassDef) or cls.name not in cattrs:
            continue
        def walk(body, in_flow):
            for st in body:
                if isinstance(st, ast.FunctionDef):
                    # only methods the executed class really has (not the dead branch of an if)
                    if st.args.args and st.args.args[0].arg == 'self' and not st.decorator_list \
                            and st.lineno == st.body[0].lineno - 1 \
                            and (cattrs.get('%lines:' + cls.name) or {}).get(st.name) == st.lineno:
                        cands.append((cls.name, st, in_flow))
                elif isinstance(st, (ast.If, ast.For, ast.With, ast.Try, ast.While)):
                    for part in ('body', 'orelse', 'finalbody'):
                        walk(getattr(st, part, []) or [], True)
                    for h in getattr(st, 'handlers', []):
                        walk(h.body, True)
        walk(cls.body, False)
    flow = [c for c in cands if c[2]]
    plain = [c for c in cands if not c[2]]
    rnd.shuffle(flow)
    rnd.shuffle(plain)
    done = 0
    for cname, fn, in_flow in flow[:2] + plain[:1]:
        ins = ' ' * (fn.col_offset + 4) + 'self.'
        new = '\n'.join(lines[:fn.lineno] + [ins] + lines[fn.lineno:])
        w = {'case': spec['id'], 'program': k, 'receiver': 'self in %s.%s' % (cname, fn.name),
             'tag': 'inside_method_in_flow_block' if in_flow else 'inside_method', 'text': new}
        ok, s = apimon.call(rec, 'Script', jedi.Script, new, path=os.path.join(case_dir, rel),
                            project=project, witness=w)
        if not ok:
            continue
        with apimon.LimitWatch() as lw:
            ok, comps = apimon.call(rec, 'complete', s.complete, fn.lineno + 1, len(ins), witness=w)
        s = None
        if not ok or lw.hits:
            continue
        done += 1
        rec.ev('c04c:receivers_checked')
        rec.ev('c04c:self_inside_method_checked')
        names = cattrs[cname]
        rec.ev('c04c:attribute_names_expected', len(names))
        missing = sorted(set(names) - {c.name for c in comps})
        if missing:
            rec.violate('c04c:attribute_missing', 'after self. inside %s.%s the class-level attributes %s of '
                        'the executed class are not offered' % (cname, fn.name, missing), **w)
    return done


def run(spec):
    from vf.driver import digest
    rec = apimon.Recorder()
    rnd = random.Random(spec['seed'])
    run_dir = os.environ.get('VERIF_RUN_DIR', '/var/tmp')
    texts = []
    receivers = 0
    for k in range(PER_CASE):
        b = vfl.Builder(rnd, multi_module=rnd.random() < 0.4)
        files = b.build(rnd.randint(6, 12))
        case_dir = os.path.join(run_dir, 'c04c-%s-%d' % (spec['id'], k))
        os.makedirs(case_dir, exist_ok=True)
        for rel, text in files.items():
            with open(os.path.join(case_dir, rel), 'w') as f:
                f.write(text)
        res = c02.observe(case_dir, [p['line'] for p in b.probes])
        if res is None:
            continue
        attrs = res['obs'].get('attrs', {})
        lines = files['main.py'].split('\n')
        texts.append(files['main.py'])
        project = jedi.Project(case_dir)
        receivers += probe_inside_methods(rec, rnd, files, case_dir, project, res, spec, k)
        for p in b.probes:
            names = attrs.get(str(p['line']))
            obs = res['obs'].get(str(p['line']))
            if not names or not obs or len(obs) != 1:
                continue
            # the program given to jedi: `<var>.` inserted as its own statement after the probe
            new = lines[:p['line']] + [p['var'] + '.'] + lines[p['line']:]
            text = '\n'.join(new)
            w = {'case': spec['id'], 'program': k, 'receiver': p['var'], 'tag': p['tag'],
                 'runtime': obs[0][:3], 'text': text}
            path = os.path.join(case_dir, 'main.py')
            ok, s = apimon.call(rec, 'Script', jedi.Script, text, path=path, project=project, witness=w)
            if not ok:
                continue
            with apimon.LimitWatch() as lw:
                ok, comps = apimon.call(rec, 'complete', s.complete, p['line'] + 1, len(p['var']) + 1,
                                        witness=w)
            s = None
            if not ok:
                continue
            if lw.hits:
                rec.ev('c04c:receivers_inconclusive_give_up_limit_hit')
                continue
            receivers += 1
            rec.ev('c04c:receivers_checked')
            got = {c.name for c in comps}
            apimon.completion_algebra(rec, comps, text, p['line'] + 1, len(p['var']) + 1, False, w)
            missing = sorted(set(names) - got)
            rec.ev('c04c:attribute_names_expected', len(names))
            if missing:
                rec.violate('c04c:attribute_missing', 'after %s. (run-time %s %s) the attributes %s '
                            'of the live object are not offered' % (p['var'], obs[0][0], obs[0][2], missing),
                            **w)
    return {'id': spec['id'], 'digest': digest(texts),
            'violations': [v for v in rec.violations if v['key'].startswith(('c04c', 'c04:'))],
            'events': {k: v for k, v in rec.events.items() if not k.startswith('call:')},
            'nontrivial': receivers >= 5,
            'sample': {'case': spec['id'], 'receivers_checked': receivers}}
