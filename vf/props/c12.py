"""C12 — analysing sources with Script never executes them.

Deciding monitors: sentinel files (every generated .py writes one at import time), audit
hooks in the host (sys.addaudithook) and in jedi's helper process (sitecustomize on its
PYTHONPATH), and state snapshots (sys.path, sys.modules, cwd, environ) around every query.
A control arm (load_unsafe_extensions=True with a project-local `gi`) must leave a sentinel,
otherwise the monitor is blind and the case is inconclusive."""
import os
import random
import re
import sys
import zipfile

import jedi

from vf import apimon

ID = 'C12'
LEVEL = 'exploration'
DECIDING = ['c12:queries_monitored']
RULE = ('a case = one generated project whose every Python file writes a sentinel at import time: '
        'conftest.py, setup.py, sitecustomize.py, usercustomize.py, __main__.py, a C extension and a source-less .pyc (in part of the cases), gi.py (listed in '
        'settings.auto_import_modules), an evil.pth, plain modules and packages, and files named '
        'like standard-library modules that neither host nor helper has imported yet; x buffers '
        'importing them in every import form x {complete, infer, goto(follow), get_references, '
        'rename, search, get_signatures, help} + Project.search/complete_search x project options '
        '{default, explicit sys_path with the project, added_sys_path, smart_sys_path off}. After '
        'every query: sentinel directory empty, no import/exec/compile audit event for a project '
        'file in host or helper, host sys.path/sys.modules/cwd/environ unchanged. Non-trivial: '
        '>= 20 queries monitored and the control arm produced its sentinel; distinct by project '
        'content digest.')
ASSUMPTIONS = ['audit events import/exec/compile cover execution of Python source in CPython 3.12',
               'a C extension (built with the gcc present) and a source-less .pyc are planted in every 4th quick project and every thorough one']
SIZES = {'quick': 64, 'thorough': 800}
TIMEOUT = {'quick': 1200, 'thorough': 4 * 3600}

_G = {'root': None, 'events': [], 'installed': False}


def plan(tier, seed):
    return [{'id': 'c12-%d' % i, 'seed': '%s/C12/%d' % (seed, i),
             'compiled': tier == 'thorough' or i % 4 == 0, 'venv_in_project': i % 3 == 1}
            for i in range(SIZES[tier])]


def _audit(event, args):
    root = _G['root']
    if root is None:
        return
    try:
        if event == 'import':
            fn = args[1]
            if fn and str(fn).startswith(root):
                _G['events'].append(('import', args[0], str(fn)))
        elif event == 'exec':
            fn = getattr(args[0], 'co_filename', '')
            if str(fn).startswith(root):
                _G['events'].append(('exec', str(fn)))
        elif event == 'compile':
            fn = args[1]
            if fn and str(fn).startswith(root):
                _G['events'].append(('compile', str(fn)))
    except Exception:
        pass


def worker_init():
    if _G['installed']:
        return
    hooks = os.path.join(os.path.dirname(os.path.dirname(os.path.abspath(__file__))), 'helperhooks')
    os.environ['PYTHONPATH'] = hooks
    sys.path.insert(0, hooks)
    _G['helper_log'] = os.path.join(os.environ.get('VERIF_RUN_DIR', '/var/tmp'),
                                    'helper-audit-%d.log' % os.getpid())
    os.environ['VERIF_HELPER_AUDIT'] = _G['helper_log']
    sys.addaudithook(_audit)
    _G['installed'] = True


SENTINEL_CODE = (
    "import os as _os, sys as _sys\n"
    "def _who():\n"
    "    f = _sys._getframe(1).f_back\n"
    "    while f is not None and 'importlib' in f.f_code.co_filename:\n"
    "        f = f.f_back\n"
    "    return '%%s\\t%%s' %% (f.f_code.co_filename, f.f_code.co_name) if f is not None else '?\\t?'\n"
    "_f = open(_os.path.join(%r, %r), 'w'); _f.write('%%d\\t%%s' %% (_os.getpid(), _who())); _f.close()\n"
    "del _f, _who\n")


def _body(sentinel_dir, uid, defs):
    return SENTINEL_CODE % (sentinel_dir, uid) + defs


def norm_importer(filename, func):
    """Mechanism name for 'who imported a project file': the innermost frame outside importlib,
    with the installation prefix cut off and all codec modules of the encodings package folded
    into one name (every one of them is reached through the same codec lookup)."""
    fn = str(filename).replace('\\', '/')
    if _G['root'] and fn.startswith(_G['root']):
        return '<another project file>:' + func
    if '/encodings/' in fn:
        return 'encodings/<codec module>:' + func
    for marker in ('/site-packages/', '/jedi/', '/parso/'):
        if marker in fn:
            rel = fn.split(marker)[-1]
            if marker in ('/jedi/', '/parso/'):
                rel = marker.strip('/') + '/' + rel
            return rel + ':' + func
    m = re.search(r'/lib/python\d+\.\d+/(.*)$', fn)
    if m:
        return m.group(1) + ':' + func
    return os.path.basename(fn) + ':' + func


C_SOURCE = r'''
#define PY_SSIZE_T_CLEAN
#include <Python.h>
#include <stdio.h>
static struct PyModuleDef mod = {PyModuleDef_HEAD_INIT, "somod", NULL, -1, NULL};
PyMODINIT_FUNC PyInit_somod(void) {
    FILE *f = fopen(SENTINEL, "w"); if (f) { fputs("ran", f); fclose(f); }
    PyObject *m = PyModule_Create(&mod);
    if (m) PyModule_AddIntConstant(m, "so_const", 7);
    return m;
}
'''


def build_project(root, sentinel_dir, rnd, helper_modules, with_compiled=False):
    os.makedirs(root, exist_ok=True)
    files = {}
    n = [0]

    def add(rel, defs):
        n[0] += 1
        uid = 'S%03d_%s' % (n[0], rel.replace('/', '_'))
        files[rel] = _body(sentinel_dir, uid, defs)

    add('conftest.py', 'import pytest\n@pytest.fixture\ndef my_fixture():\n    return 1\npytest_plugins = ["plug"]\n')
    add('plug.py', 'import pytest\n@pytest.fixture\ndef plug_fixture():\n    return "s"\n')
    add('setup.py', 'NAME = "proj"\ndef setup_fn(): pass\n')
    add('sitecustomize.py', 'SC = 1\n')
    add('usercustomize.py', 'UC = 1\n')
    add('__main__.py', 'MAIN = 1\n')
    add('gi.py', 'class Gtk: pass\ndef gi_fn(): pass\n')
    add('mod.py', 'class ModCls:\n    attr = 1\n    def meth(self): return self\ndef mod_fn(a, b=2): return a\nVALUE = [1, "s"]\n')
    add('pkg/__init__.py', 'from pkg.sub import sub_fn\nPKG = 1\n')
    add('pkg/sub.py', 'def sub_fn(): return 1\nclass SubCls: pass\n')
    add('pkg/conftest.py', 'import pytest\n@pytest.fixture\ndef inner_fixture(): return 2\n')
    add('test_it.py', 'def test_x(my_fixture, plug_fixture):\n    my_fixture\n')
    # a project-local setuptools (a start-up finder of the analysing interpreter's own setuptools,
    # _distutils_hack, imports setuptools._distutils when somebody looks for distutils)
    add('setuptools/__init__.py', 'SETUPTOOLS = 1\n')
    add('setuptools/_distutils/__init__.py', 'DISTUTILS = 1\n')
    # names of standard-library modules that nobody has imported yet
    cands = [m for m in sorted(sys.stdlib_module_names)
             if not m.startswith('_') and m not in sys.modules and m not in helper_modules
             and m not in ('this', 'antigravity', 'idlelib', 'tkinter', 'turtle', 'turtledemo',
                           'test', 'lib2to3', 'ensurepip', 'venv', 'pydoc_data')]
    shadow = rnd.sample(cands, min(len(cands), rnd.randint(8, 30)))
    # modules that codec modules of the encodings package import when a codec is first looked up
    for m in ('quopri', 'stringprep', 'bz2', 'uu'):
        if m in cands and m not in shadow and rnd.random() < 0.8:
            shadow.append(m)
    # modules that Unicode handling imports lazily (normalisation of non-ASCII identifiers)
    for m in ('unicodedata', 'stringprep'):
        if m in cands and m not in shadow:
            shadow.append(m)
    for m in shadow:
        add(m + '.py', 'SHADOW = %r\ndef shadow_fn(): pass\n' % m)
    # modules with non-ASCII names (PEP 3131), one of them not NFKC-stable
    add('donn\u00e9es.py', 'DONNEES = 1\ndef donnees_fn(): pass\n')
    add('\ufb01le_mod.py', 'LIGATURE = 1\n')
    # compiled modules in the project: a C extension and a source-less .pyc, both writing a
    # sentinel when really imported (the only kind of module jedi ever imports for real)
    compiled = []
    if with_compiled:
        import py_compile
        import subprocess
        import sysconfig
        src = os.path.join(root, '_pyc_src.py')
        with open(src, 'w') as f:
            f.write(_body(sentinel_dir, 'PYC_pycmod', 'PYC_CONST = 1\n'))
        py_compile.compile(src, cfile=os.path.join(root, 'pycmod.pyc'))
        os.unlink(src)
        compiled.append('pycmod')
        csrc = os.path.join(os.path.dirname(root), 'somod.c')
        with open(csrc, 'w') as f:
            f.write(C_SOURCE)
        so = os.path.join(root, 'somod' + sysconfig.get_config_var('EXT_SUFFIX'))
        r = subprocess.run(['gcc', '-shared', '-fPIC', '-I' + sysconfig.get_paths()['include'],
                            '-DSENTINEL="%s"' % os.path.join(sentinel_dir, 'SO_somod'), csrc, '-o', so],
                           capture_output=True)
        if r.returncode == 0:
            compiled.append('somod')
    files['__compiled__'] = ','.join(compiled)
    # a zip archive (meant for sys.path) whose modules carry coding cookies of rarely used codecs
    with zipfile.ZipFile(os.path.join(root, 'lib.zip'), 'w') as z:
        codecs_ = ['idna', 'bz2', 'punycode', 'uu', 'rot13', 'latin-1', 'utf-8', 'cp1252', 'hex', 'zlib', 'utf-16']
        # zmod0 is asked about first: a sub-module lookup (zpkg.inner) does not swap sys.path, and
        # once a codec has been looked up the interpreter never imports its module again
        for i, codec in enumerate(['quopri'] + rnd.sample(codecs_, 4)):
            z.writestr('zmod%d.py' % i, '# -*- coding: %s -*-\nZ%d = 1\ndef zfn(): pass\n' % (codec, i))
        z.writestr('zpkg/__init__.py', 'ZP = 1\n')
        z.writestr('zpkg/inner.py', '# coding: %s\nZI = 1\n' % rnd.choice(codecs_))
    with open(os.path.join(root, 'evil.pth'), 'w') as f:
        f.write("import os; open(os.path.join(%r, 'PTH'), 'w').write('ran')\n" % sentinel_dir)
    compiled_names = files.pop('__compiled__').split(',') if files.get('__compiled__') else []
    files.pop('__compiled__', None)
    for rel, text in files.items():
        p = os.path.join(root, rel)
        os.makedirs(os.path.dirname(p), exist_ok=True)
        with open(p, 'w', encoding='utf-8') as f:
            f.write(text)
    return files, shadow + compiled_names


def snapshot():
    return {'path': list(sys.path), 'cwd': os.getcwd(), 'environ': dict(os.environ),
            'modules': dict((k, id(v)) for k, v in sys.modules.items())}


def compare_state(rec, before, root, w):
    after = snapshot()
    if after['path'] != before['path']:
        rec.violate('c12:sys_path_changed', 'host sys.path changed by a query: %s'
                    % [p for p in after['path'] if p not in before['path']], **w)
    if after['cwd'] != before['cwd']:
        rec.violate('c12:cwd_changed', 'cwd %s -> %s' % (before['cwd'], after['cwd']), **w)
    if after['environ'] != before['environ']:
        rec.violate('c12:environ_changed', 'os.environ changed: %s' % sorted(
            set(after['environ'].items()) ^ set(before['environ'].items()))[:4], **w)
    for k, v in before['modules'].items():
        if k not in after['modules']:
            rec.violate('c12:sys_modules_entry_removed', 'sys.modules[%r] removed' % k, **w)
        elif after['modules'][k] != v:
            rec.violate('c12:sys_modules_entry_rebound', 'sys.modules[%r] rebound' % k, **w)
    for k in after['modules']:
        if k not in before['modules']:
            m = sys.modules.get(k)
            origin = getattr(m, '__file__', None) or ''
            if str(origin).startswith(root):
                rec.violate('c12:project_module_imported', 'sys.modules gained %r from %s' % (k, origin), **w)
            else:
                rec.ev('c12:lazy_stdlib_or_jedi_imports_logged')


def check_after(rec, sentinel_dir, root, w, helper_log_pos):
    rec.ev('c12:queries_monitored')
    s = os.listdir(sentinel_dir)
    for x in sorted(s):
        fp = os.path.join(sentinel_dir, x)
        try:
            with open(fp) as f:
                parts = f.read().split('\t')
        except OSError:
            parts = []
        os.unlink(fp)
        if len(parts) == 3:
            where = 'host' if parts[0] == str(os.getpid()) else 'helper'
            key = 'c12:sentinel:%s:imported_by:%s' % (where, norm_importer(parts[1], parts[2]))
        elif x == 'PTH':
            key = 'c12:sentinel:pth_line_executed'
        else:
            key = 'c12:sentinel:compiled_module_initialised'
        rec.violate(key, 'project code ran: sentinel %s written (%s)' % (x, parts), **w)
    if _G['events']:
        hard = [e for e in _G['events'] if e[0] != 'compile']
        if hard:
            rec.violate('c12:host_audit_event', 'host audit events for project files: %s' % hard[:4], **w)
        if len(hard) < len(_G['events']):
            rec.ev('c12:host_compile_of_project_source_logged')
        del _G['events'][:]
    log = _G['helper_log']
    if os.path.exists(log):
        with open(log) as f:
            f.seek(helper_log_pos[0])
            for line in f:
                parts = line.rstrip('\n').split('\t')
                if len(parts) < 3 or root not in parts[2]:
                    continue
                if (os.path.join(root, '.venv') + os.sep) in parts[2]:
                    continue   # the environment's own files (a virtualenv kept inside the project)
                if parts[1] == 'compile':
                    # compiling is neither importing nor executing (zipimport compiles the
                    # source of a module it locates): recorded, not charged
                    rec.ev('c12:helper_compile_of_project_source_logged')
                elif parts[1] == 'exec':
                    who = norm_importer(parts[3], parts[4]) if len(parts) >= 5 else '?'
                    rec.violate('c12:helper_audit_event:exec:imported_by:' + who,
                                'helper audit event: %s' % parts, **w)
                elif parts[1] == 'import':
                    rec.violate('c12:helper_audit_event:import', 'helper audit event: %s' % parts, **w)
            helper_log_pos[0] = f.tell()
        rec.ev('c12:helper_log_scanned')


def run(spec):
    from vf.driver import digest
    worker_init()
    rnd = random.Random(spec['seed'])
    rec = apimon.Recorder()
    run_dir = os.environ.get('VERIF_RUN_DIR', '/var/tmp')
    base = os.path.join(run_dir, 'c12-' + spec['id'])
    root = os.path.join(base, 'project')
    sentinel_dir = os.path.join(base, 'sentinels')
    outside = os.path.join(base, 'outside')
    for d in (sentinel_dir, outside):
        os.makedirs(d, exist_ok=True)
    import verif_probe
    from jedi.api.environment import get_cached_default_environment
    # the step that starts the helper process is monitored too (the previous case killed its helper)
    before_spawn = snapshot()
    env = get_cached_default_environment()
    helper_modules = set(env._get_subprocess()._send(None, verif_probe.snapshot)['modules'])
    compare_state(rec, before_spawn, base, {'case': spec['id'], 'phase': 'helper process started'})
    rec.ev('c12:helper_start_monitored')
    files, shadow = build_project(root, sentinel_dir, rnd, helper_modules,
                                  with_compiled=spec.get('compiled', False))
    _G['root'] = root
    del _G['events'][:]
    helper_log_pos = [os.path.getsize(_G['helper_log']) if os.path.exists(_G['helper_log']) else 0]
    mods = ['conftest', 'setup', 'sitecustomize', 'usercustomize', 'gi', 'mod', 'pkg', 'pkg.sub', 'plug'] + shadow
    rnd.shuffle(mods)
    mods = [m for m in ('somod', 'pycmod') if m in shadow] + [m for m in mods if m not in ('somod', 'pycmod')]
    mods = mods[:14] + ['donn\u00e9es', '\ufb01le_mod', 'distutils', 'zmod0', 'zmod%d' % rnd.randint(1, 4), 'zpkg.inner']
    configs = [
        ('default', dict()),
        ('sys_path', dict(sys_path=[root] + [p for p in env.get_sys_path() if p])),
        ('added', dict(added_sys_path=[root, os.path.join(root, 'lib.zip')])),
        ('nosmart', dict(smart_sys_path=False, added_sys_path=[root, os.path.join(root, 'lib.zip')])),
    ]
    if spec.get('venv_in_project'):
        # the project keeps its virtualenv inside the project directory and jedi is told to use it:
        # every sys.path entry of that environment then starts with the project path
        import subprocess
        venv = os.path.join(root, '.venv')
        r = subprocess.run([sys.executable, '-m', 'venv', '--without-pip', '--symlinks', venv],
                           capture_output=True, text=True, timeout=120)
        if r.returncode == 0:
            configs.append(('venv_in_project', dict(environment_path=venv)))
            rec.ev('c12:venv_in_project_configs')
        else:
            rec.ev('c12:venv_creation_failed')
    locs = [os.path.join(root, 'buffer.py'), os.path.join(root, 'pkg', 'buffer.py'),
            os.path.join(root, 'test_buffer.py')]
    helper_before = env._get_subprocess()._send(None, verif_probe.snapshot)
    nq = 0
    try:
        for cname, kw in configs:
            project = jedi.Project(root, **kw)
            for m in mods:
                top = m.split('.')[0]
                forms = ['import %s\n%s.' % (m, m), 'from %s import *\n' % m,
                         'import %s as al\nal.' % m, 'from %s import ' % m,
                         'from . import %s\n%s.' % (top, top)]
                code = rnd.choice(forms)
                special = m == 'distutils' or m.startswith(('zmod', 'zpkg'))
                if special:
                    # absolute forms whose completion needs the module itself
                    code = rnd.choice([forms[0], forms[2], forms[3]])
                if rnd.random() < 0.3:
                    code = 'def test_q(my_fixture, inner_fixture, plug_fixture):\n    my_fixture\n' + code
                path = rnd.choice(locs)
                lines = code.split('\n')
                pos = (len(lines), len(lines[-1]))
                w = {'case': spec['id'], 'config': cname, 'code': code, 'path': path}
                before = snapshot()
                ok, s = apimon.call(rec, 'Script', jedi.Script, code, path=path, project=project, witness=w)
                if not ok:
                    continue
                meths = rnd.sample(['complete', 'infer', 'goto', 'get_references', 'help',
                                    'get_signatures', 'rename', 'search', 'get_names'], 4)
                if special and 'complete' not in meths:
                    meths[0] = 'complete'
                for meth in meths:
                    if meth == 'goto':
                        apimon.call(rec, meth, s.goto, 1, len(lines[0]) - 1, follow_imports=True, witness=w)
                    elif meth == 'rename':
                        apimon.call(rec, 'refactor.rename', s.rename, 1, len(lines[0]) - 1,
                                    new_name='renamed_x', witness=w)
                    elif meth == 'search':
                        apimon.call(rec, meth, lambda: list(s.search(top)), witness=w)
                    elif meth == 'get_names':
                        apimon.call(rec, meth, s.get_names, witness=w)
                    elif meth in ('infer', 'get_references', 'help'):
                        apimon.call(rec, meth, getattr(s, meth), 1, len(lines[0]) - 1, witness=w)
                    else:
                        apimon.call(rec, meth, getattr(s, meth), *pos, witness=w)
                    nq += 1
                    check_after(rec, sentinel_dir, root, dict(w, method=meth), helper_log_pos)
                    compare_state(rec, before, root, dict(w, method=meth))
            for string in ('mod_fn', 'gi', 'ModCls', 'shadow_fn', 'conftest', 'pkg.sub'):
                w = {'case': spec['id'], 'config': cname, 'search': string}
                before = snapshot()
                apimon.call(rec, 'Project.search', lambda: list(project.search(string)), witness=w)
                apimon.call(rec, 'Project.complete_search',
                            lambda: list(project.complete_search(string[:3])), witness=w)
                nq += 1
                check_after(rec, sentinel_dir, root, w, helper_log_pos)
                compare_state(rec, before, root, w)
        helper_after = env._get_subprocess()._send(None, verif_probe.snapshot)
        rec.ev('c12:helper_snapshots_compared')
        for key in ('cwd', 'path'):
            if helper_after[key] != helper_before[key]:
                rec.violate('c12:helper_%s_changed' % key, 'helper %s changed: %s -> %s'
                            % (key, helper_before[key], helper_after[key]), case=spec['id'])
        # ---- control arm: the monitor must see real execution when it is allowed
        control_ok = False
        project = jedi.Project(root, load_unsafe_extensions=True)
        s = jedi.Script('import gi\ngi.', path=os.path.join(root, 'ctl.py'), project=project)
        try:
            s.complete(2, 3)
        except Exception:
            pass
        if any(x.endswith('gi.py') for x in os.listdir(sentinel_dir)):
            control_ok = True
            rec.ev('c12:control_arm_sentinel_seen')
        if 'somod' in shadow:
            s = jedi.Script('import somod\nsomod.', path=os.path.join(root, 'ctl2.py'), project=project)
            try:
                s.complete(2, 6)
            except Exception:
                pass
            if 'SO_somod' in os.listdir(sentinel_dir):
                rec.ev('c12:control_arm_extension_sentinel_seen')
            else:
                control_ok = False
        for x in os.listdir(sentinel_dir):
            os.unlink(os.path.join(sentinel_dir, x))
        audit_seen = False
        if os.path.exists(_G['helper_log']):
            with open(_G['helper_log']) as f:
                f.seek(helper_log_pos[0])
                audit_seen = any(root in line and line.split('\t')[1] in ('import', 'exec', 'compile')
                                 for line in f if line.count('\t') >= 2)
        if audit_seen:
            rec.ev('c12:control_arm_helper_audit_seen')
        control_ok = control_ok and audit_seen
        # the control arm really imported the project's gi in the helper: start a new helper
        env._get_subprocess()._kill()
    finally:
        _G['root'] = None
        del _G['events'][:]
    vio = [v for v in rec.violations if v['key'].startswith('c12')]
    res = {'id': spec['id'], 'digest': digest(sorted(files)), 'violations': vio,
           'events': {k: v for k, v in rec.events.items() if not k.startswith('call:')},
           'nontrivial': nq >= 20 and control_ok,
           'sample': {'case': spec['id'], 'files': len(files), 'shadowed_stdlib': shadow[:6],
                      'queries_monitored': nq, 'control_arm_sentinel': control_ok}}
    if not control_ok:
        res['inconclusive'] = ['control arm left no sentinel: monitor may be blind']
    return res
