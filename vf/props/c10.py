"""C10 — import statements resolve to what Python's import system would load.

Deciding monitor: join of infer()/goto(follow_imports=True) on the imported name with what a
fresh interpreter (same sys.path roots, `python -S`, one process per import statement) binds
when it executes that very import; plus a round-trip contract on transform_path_to_dotted
decided by really importing the dotted name."""
import json
import os
import random
import subprocess

import jedi

from vf import apimon
from vf.boot import PYTHON
from vf.gen import trees

ID = 'C10'
LEVEL = 'exploration'
DECIDING = ['c10:imports_joined', 'c10:dotted_roundtrips']
RULE = ('a case = 2-3 generated sys.path roots (two of them with names that are string prefixes of '
        'each other), each a tree to depth 3 over three clashing names (below the top level also names of frozen '
        'standard-library modules: io, abc, stat, site, codecs), every node module / regular '
        'package / namespace package / module+directory clash, attributes named like sub-modules; '
        'roots given in random order. ~24 import statements per case (import a, import a.b, import '
        'a.b.c, import .. as, from a import b, from a.b import c, star import + use, relative '
        'imports of level 1-2 issued from a buffer inside a package) are each executed by a fresh '
        'interpreter and asked of jedi (infer and goto follow_imports); modules by file, namespace '
        'packages by directory set, attributes by defining file, ImportError by emptiness. Every '
        '.py file of the tree goes through transform_path_to_dotted with the roots in both orders '
        'and the result is imported back. Non-trivial: >= 8 imports joined, of which one resolved '
        'and one failed in Python; distinct by tree digest.')
ASSUMPTIONS = ['the helper interpreter equals the oracle interpreter (3.12)',
               'generated modules have no import-time behaviour besides constants',
               'files shadowed by an earlier root are not importable under any name: not claimed for the dotted-name clause']
SIZES = {'quick': 120, 'thorough': 800}
TIMEOUT = {'quick': 1500, 'thorough': 5 * 3600}

ORACLE = r'''
import sys, json, importlib, types
roots, modname, is_pkg, stmt, name, bufdir = json.loads(sys.argv[1])
sys.path[:0] = roots
ns = {'__name__': modname or '__main__'}
if modname:
    ns['__package__'] = modname if is_pkg else modname.rpartition('.')[0]
else:
    ns['__package__'] = None
try:
    if ns['__package__']:
        try:
            pk = importlib.import_module(ns['__package__'])
            if bufdir not in list(getattr(pk, '__path__', [])):
                raise ImportError('buffer shadowed')
        except ImportError:
            # the buffer's own package is shadowed by an earlier root: the buffer is not a
            # module Python could run under that name (precondition, not a verdict)
            print(json.dumps(['error', 'precondition', 'buffer package not importable']))
            raise SystemExit(0)
    exec(stmt, ns)
    v = ns[name]
    if isinstance(v, types.ModuleType):
        f = getattr(v, '__file__', None)
        print(json.dumps(['module', f] if f else ['namespace', sorted(v.__path__)]))
    else:
        print(json.dumps(['value', repr(v)]))
except ImportError as e:
    print(json.dumps(['ImportError', type(e).__name__, str(e)[:100]]))
except NameError as e:
    print(json.dumps(['ImportError', 'NameError', str(e)[:100]]))
except SystemExit:
    pass
except BaseException as e:
    print(json.dumps(['error', type(e).__name__, str(e)[:100]]))
'''

DOTTED_ORACLE = r'''
import sys, json, importlib
roots, dotted = json.loads(sys.argv[1])
sys.path[:0] = roots
try:
    m = importlib.import_module(dotted)
    print(json.dumps(['ok', getattr(m, '__file__', None)]))
except BaseException as e:
    print(json.dumps(['fail', type(e).__name__, str(e)[:100]]))
'''


def plan(tier, seed):
    return [{'id': 'c10-%d' % i, 'seed': '%s/C10/%d' % (seed, i), 'nstmts': 24}
            for i in range(SIZES[tier])]


def oracle(roots, modname, is_pkg, stmt, name, bufdir):
    try:
        r = subprocess.run([PYTHON, '-S', '-c', ORACLE,
                            json.dumps([roots, modname, is_pkg, stmt, name, bufdir])],
                           capture_output=True, text=True, timeout=60, cwd='/')
        return json.loads(r.stdout.strip().splitlines()[-1])
    except Exception as e:
        return ['oracle-failed', repr(e)]


def gen_statements(rnd, files_by_root, n):
    """[(stmt text, bound name, column of the name to query, buffer location or None)]"""
    N = trees.NAMES
    pk_dirs = sorted({d for files in files_by_root.values() for d in trees.dirs_of(files)})
    out = []
    for _ in range(n):
        a, b, c = (rnd.choice(N) for _ in range(3))
        # below the top level a component may be spelled like a (frozen) standard-library module
        sub = [x for x in trees.STDLIB_NAMES
               if any(('/' + x + '.py') in ('/' + r) or ('/' + x + '/') in ('/' + r)
                      for files in files_by_root.values() for r in files)]
        if sub and rnd.random() < 0.5:
            b = rnd.choice(sub)
        if sub and rnd.random() < 0.3:
            c = rnd.choice(sub)
        form = rnd.choice(['import a', 'import a.b', 'import a.b.c', 'import a as', 'import a.b as',
                           'from a import b', 'from a.b import c', 'from a import b as', 'star',
                           'rel1', 'rel1', 'rel2', 'rel1mod', 'from a.b.c import'])
        loc = None
        if form == 'import a':
            s, name, col = 'import %s' % a, a, 7
        elif form == 'import a.b':
            s, name, col = 'import %s.%s as zz' % (a, b), 'zz', 8 + len(a)
        elif form == 'import a.b.c':
            s, name, col = 'import %s.%s.%s as zz' % (a, b, c), 'zz', 9 + len(a) + len(b)
        elif form == 'import a as':
            s, name, col = 'import %s as zz' % a, 'zz', 7
        elif form == 'import a.b as':
            s, name, col = 'import %s.%s as zz' % (a, b), 'zz', 12 + len(a) + len(b)
        elif form == 'from a import b':
            s, name, col = 'from %s import %s' % (a, b), b, 13 + len(a)
        elif form == 'from a.b import c':
            s, name, col = 'from %s.%s import %s' % (a, b, c), c, 14 + len(a) + len(b)
        elif form == 'from a.b.c import':
            s, name, col = 'from %s.%s.%s import MARK' % (a, b, c), 'MARK', 15 + len(a) + len(b) + len(c)
        elif form == 'from a import b as':
            s, name, col = 'from %s import %s as zz' % (a, b), 'zz', 13 + len(a)
        elif form == 'star':
            s, name, col = 'from %s.%s import *\nMARK' % (a, b), 'MARK', None
            if rnd.random() < 0.5:
                s = 'from %s import *\nMARK' % a
        else:
            if not pk_dirs:
                continue
            loc = rnd.choice(pk_dirs)
            if sub and rnd.random() < 0.5:
                a = rnd.choice(sub)
            if form == 'rel1':
                s, name, col = 'from . import %s' % a, a, 14
            elif form == 'rel1mod':
                s, name, col = 'from .%s import %s' % (a, b), b, 14 + len(a)
            else:
                s, name, col = 'from .. import %s' % a, a, 15
        out.append((s, name, col, loc))
    return out


def run(spec):
    from vf.driver import digest
    from jedi.inference import sys_path as jsp
    rnd = random.Random(spec['seed'])
    rec = apimon.Recorder()
    run_dir = os.environ.get('VERIF_RUN_DIR', '/var/tmp')
    base = os.path.join(run_dir, 'c10-' + spec['id'])
    labels = ['ab', 'abc'] + (['zz3'] if rnd.random() < 0.4 else [])
    files_by_root = {}
    roots = []
    for lb in labels:
        d = os.path.join(base, lb)
        os.makedirs(d, exist_ok=True)
        files_by_root[d] = trees.build_root(rnd, d, lb, max_depth=rnd.choice([1, 2, 2, 3]))
        roots.append(d)
    rnd.shuffle(roots)
    project = jedi.Project(base, sys_path=roots, smart_sys_path=False)
    joined = resolved = failed = 0
    for si, (stmt, name, col, loc) in enumerate(gen_statements(rnd, files_by_root, spec['nstmts'])):
        if loc is None:
            path = os.path.join(base, 'main_%d.py' % si)
            modname, is_pkg = None, False
        else:
            root = rnd.choice([r for r in roots if os.path.isdir(os.path.join(r, loc))] or [None])
            if root is None:
                continue
            path = os.path.join(root, loc, 'zz_buffer_%d.py' % si)
            modname = loc.replace('/', '.') + '.zz_buffer_%d' % si
            is_pkg = False
        truth = oracle(roots, modname, is_pkg, stmt, name, os.path.dirname(path))
        if truth[0] in ('error', 'oracle-failed'):
            rec.ev('c10:oracle_' + truth[0])
            continue
        lines = stmt.split('\n')
        line = len(lines)
        column = col if col is not None else len(lines[-1]) - 1
        w = {'case': spec['id'], 'stmt': stmt, 'roots': roots, 'buffer': path, 'python': truth}
        ok, s = apimon.call(rec, 'Script', jedi.Script, stmt + '\n', path=path, project=project, witness=w)
        if not ok:
            continue
        ok, defs = apimon.call(rec, 'infer', s.infer, line, column, witness=w)
        ok2, gdefs = apimon.call(rec, 'goto', s.goto, line, column, follow_imports=True, witness=w)
        if not ok or not ok2:
            continue
        rec.ev('c10:imports_joined')
        rec.ev('c10:python_' + truth[0])
        joined += 1
        mods = sorted({str(d.module_path) for d in defs if d.type == 'module' and d.module_path})
        nss = [d for d in defs if d.type == 'namespace']
        vals = [d for d in defs if d.type not in ('module', 'namespace')]
        got = [(d.type, d.name, str(d.module_path), d.line) for d in defs]
        anc_key = None
        if truth[0] in ('module', 'namespace') and vals and not mods and not nss:
            tdir = os.path.dirname(truth[1]) if truth[0] == 'module' else truth[1][0]
            if path.startswith(tdir + os.sep):
                # listed finding: the imported name is an ancestor package of the buffer itself
                # (so Python has it in sys.modules and bound on its parent) and also an attribute
                # assigned in the parent's __init__; jedi statically prefers the attribute
                anc_key = 'c10:attribute_preferred_over_imported_ancestor_package'
        if truth[0] == 'module':
            gmods = sorted({str(d.module_path) for d in gdefs if d.type == 'module' and d.module_path})
            if not anc_key and gmods != [truth[1]]:
                rec.violate('c10:goto_wrong_module', 'Python loads %s, goto(follow_imports=True) lands in '
                            '%s' % (truth[1], [(d.type, d.name, str(d.module_path)) for d in gdefs]), **w)
        if truth[0] == 'module':
            resolved += 1
            if mods != [truth[1]] or vals or nss:
                rec.violate(anc_key or 'c10:wrong_module', 'Python loads %s, jedi infers %s' % (truth[1], got), **w)
        elif truth[0] == 'namespace':
            resolved += 1
            paths = set()
            for d in nss:
                try:
                    for v in d._name.infer():
                        paths |= set(map(str, v.py__path__()))
                except Exception:
                    pass
            if not nss or mods or vals:
                rec.violate(anc_key or 'c10:namespace_expected', 'Python binds a namespace package %s, jedi infers %s'
                            % (truth[1], got), **w)
            elif paths and paths != set(truth[1]):
                rec.violate('c10:namespace_paths', 'namespace __path__ %s, jedi %s' % (truth[1], sorted(paths)), **w)
        elif truth[0] == 'value':
            resolved += 1
            # value is the unique string "attr:<label>/<rel>" or the MARK "<label>/<rel>"
            val = eval(truth[1])
            label_rel = val[5:] if val.startswith('attr:') else val
            exp_file = os.path.join(base, label_rel)
            gfiles = sorted({str(d.module_path) for d in gdefs if d.module_path})
            if not vals or mods or nss or any(d.name != 'str' for d in vals):
                rec.violate('c10:attribute_expected', 'Python binds the attribute defined in %s, jedi '
                            'infers %s' % (exp_file, got), **w)
            elif gfiles != [exp_file]:
                rec.violate('c10:attribute_wrong_file', 'attribute defined in %s, goto lands in %s'
                            % (exp_file, gfiles), **w)
        elif truth[1] == 'ImportError' and 'beyond top-level' in truth[2]:
            # whether the buffer's package is "top-level" depends on how the file is run; the
            # statement requires emptiness for ModuleNotFoundError only: recorded, not charged
            rec.ev('c10:relative_beyond_top_level_not_claimed')
        else:
            failed += 1
            if defs:
                rec.violate('c10:resolved_but_python_fails', 'Python raises %s, jedi infers %s'
                            % (truth[1:], got), **w)

    # ---- dotted-name round trip (contract on the real transform_path_to_dotted, directed calls)
    all_files = [os.path.join(r, rel) for r, fs in files_by_root.items() for rel in fs]
    rnd.shuffle(all_files)
    for f in all_files[:10]:
        for order in (roots, list(reversed(roots))):
            from pathlib import Path
            ok, res = apimon.call(rec, 'transform_path_to_dotted', jsp.transform_path_to_dotted,
                                  order, Path(f), witness={'case': spec['id'], 'file': f, 'roots': order})
            if not ok:
                continue
            names, is_package = res
            if names is None:
                rec.violate('c10:dotted_none', 'no dotted name for %s under %s' % (f, order),
                            case=spec['id'], file=f, roots=order)
                continue
            dotted = '.'.join(names)
            try:
                r = subprocess.run([PYTHON, '-S', '-c', DOTTED_ORACLE, json.dumps([order, dotted])],
                                   capture_output=True, text=True, timeout=60, cwd='/')
                back = json.loads(r.stdout.strip().splitlines()[-1])
            except Exception:
                rec.ev('c10:oracle_oracle-failed')
                continue
            rec.ev('c10:dotted_roundtrips')
            if back[0] != 'ok' or back[1] != f:
                # is the file importable under its natural name at all (not shadowed)?
                rel = None
                for r_ in order:
                    if f.startswith(r_ + os.sep):
                        rel = f[len(r_) + 1:]
                natural = rel[:-3].replace('/', '.')
                natural = natural[:-9] if natural.endswith('.__init__') else natural
                try:
                    r2 = subprocess.run([PYTHON, '-S', '-c', DOTTED_ORACLE, json.dumps([order, natural])],
                                        capture_output=True, text=True, timeout=60, cwd='/')
                    nat = json.loads(r2.stdout.strip().splitlines()[-1])
                except Exception:
                    nat = ['fail']
                if nat[0] == 'ok' and nat[1] == f:
                    rec.violate('c10:dotted_roundtrip', 'transform_path_to_dotted(%s) = %r imports %s, '
                                'although %r imports the file' % (f, dotted, back[1:], natural),
                                case=spec['id'], file=f, roots=order)
                else:
                    rec.ev('c10:dotted_file_shadowed_not_claimed')
    # files that lie under none of the given roots have no dotted name
    for f in all_files[:6]:
        others = [r for r in roots if not f.startswith(r + os.sep)]
        if not others:
            continue
        from pathlib import Path
        ok, res = apimon.call(rec, 'transform_path_to_dotted', jsp.transform_path_to_dotted,
                              others, Path(f), witness={'case': spec['id'], 'file': f, 'roots': others})
        if ok:
            rec.ev('c10:dotted_roundtrips')
            if res[0] is not None:
                rec.violate('c10:dotted_for_file_outside_roots', 'transform_path_to_dotted(%s, %s) = %r '
                            'although the file lies under none of these roots'
                            % (others, f, res), case=spec['id'], file=f, roots=others)
    vio = [v for v in rec.violations if v['key'].startswith('c10')]
    return {'id': spec['id'], 'digest': digest(sorted((k, sorted(v)) for k, v in files_by_root.items())),
            'violations': vio,
            'events': {k: v for k, v in rec.events.items() if not k.startswith('call:')},
            'nontrivial': joined >= 8 and resolved >= 1 and failed >= 1,
            'sample': {'case': spec['id'], 'roots': [os.path.basename(r) for r in roots],
                       'files': sorted(sum(([os.path.basename(r) + '/' + x for x in fs]
                                            for r, fs in files_by_root.items()), []))[:14],
                       'joined': joined, 'resolved': resolved, 'python_import_errors': failed}}
