"""C08 — answers do not depend on the editing history of a buffer.

Deciding monitor: offline comparison of the answers given after a history of edits (each text
asked through a new Script in one process: same path, no path, or two buffers interleaved)
with the answers of fresh interpreter processes given only the current text; a precondition
monitor compares parso's incremental tree with a from-scratch parse (difference => the step is
inconclusive, charged to parso, not to jedi); a hook checks that the parso cache item jedi keys
its derived caches on is the one holding the Script's tree."""
import json
import os
import random
import subprocess

import jedi
import parso

from vf import apimon, corpus, mutate, norm, treedump
from vf.boot import PYTHON, VERIF
from vf.gen import edits
from vf.props import c01

ID = 'C08'
LEVEL = 'exploration'
DECIDING = ['c08:fresh_comparisons']
RULE = ('a case = one corpus text (window of <= 120 lines) + a generated history of 1..30 edits '
        '(character/line insert, delete, replace, indent/dedent blocks, paste, undo, rename / move / '
        'delete a definition, typing) in one of four modes: same path, no path, two paths '
        'interleaved, two path-less buffers interleaved. After every step a new Script is asked 8 '
        'query kinds at the edit site and at random positions; the answers at the last step and at '
        'two random earlier steps are compared with a fresh process (private cache with typeshed '
        'pickles only) given that text and path; on disagreement two more fresh processes with other '
        'hash seeds decide whether the history answer lies in the set of fresh answers. Non-trivial: '
        '>= 6 compared queries with a non-empty answer; distinct by the final text.')
ASSUMPTIONS = c01.ASSUMPTIONS + ['parso incremental tree == fresh parse is a precondition (checked per step)',
                                 'fresh-process answer set of up to 3 processes is the oracle']
SIZES = {'quick': 64, 'thorough': 500}
TIMEOUT = {'quick': 1800, 'thorough': 6 * 3600}
METHODS = ['complete', 'infer', 'goto', 'get_references_file', 'get_signatures', 'get_context',
           'get_names', 'help']


def plan(tier, seed):
    files = corpus.files()
    specs = []
    for i in range(SIZES[tier]):
        rnd = random.Random('%s/C08/plan/%d' % (seed, i))
        specs.append({'id': 'c08-%d' % i, 'kind': 'file', 'file_index': rnd.randrange(len(files)),
                      'nmut': 0, 'npos': 3, 'whole': False,
                      'length': rnd.choice([1, 2, 3, 5, 8, 8, 12, 15, 20, 30]),
                      'mode': rnd.choice(['path', 'path', 'nopath', 'two_paths', 'two_nopath']),
                      'seed': '%s/C08/%d' % (seed, i)})
    for i in range(SIZES[tier] // 2):
        rnd = random.Random('%s/C08/plan/s%d' % (seed, i))
        specs.append({'id': 'c08s-%d' % i, 'kind': 'structured', 'npos': 0,
                      'length': rnd.choice([2, 3, 4, 6, 8, 12]),
                      'mode': rnd.choice(['path', 'path', 'nopath']),
                      'seed': '%s/C08/s%d' % (seed, i)})
    return specs


class VirtualClock:
    """Stands in for the `time` module inside jedi.cache: the time-based caches (3 s signature
    cache, 10 min environment cache) then expire at steps the history chooses, not according to
    how loaded the machine is."""

    def __init__(self):
        import time as _t
        self.now = _t.time()

    def time(self):
        return self.now


def fresh(job, run_dir, tag, hashseed='0'):
    os.makedirs(os.path.join(run_dir, 'jobs'), exist_ok=True)
    jf = os.path.join(run_dir, 'jobs', tag + '.json')
    with open(jf, 'w') as f:
        json.dump(job, f)
    env = dict(os.environ, PYTHONHASHSEED=hashseed, VERIF_RUN_DIR=run_dir, PYTHONPATH=str(VERIF))
    env.pop('VERIF_CACHE_DIR', None)
    try:
        r = subprocess.run([PYTHON, '-m', 'vf.qrun', jf], cwd=os.getcwd(), env=env,
                           capture_output=True, text=True, timeout=600)
        if r.returncode != 0:
            return None
        return json.loads(r.stdout)
    except (subprocess.TimeoutExpired, ValueError):
        return None


def run(spec):
    from vf.driver import digest
    from jedi import parser_utils
    import jedi.cache as jcache
    clock = VirtualClock()
    jcache.time = clock
    rec = apimon.Recorder()
    if spec['kind'] == 'structured':
        rnd = random.Random(spec['seed'])
        shist = edits.structured_history(rnd, spec['length'])
        text0 = shist[0][0]
    else:
        shist = None
        text0, _, rnd = c01.build_text(spec)
    run_dir = os.environ.get('VERIF_RUN_DIR', '/var/tmp')
    case_dir = os.path.join(run_dir, 'c08-' + spec['id'])
    os.makedirs(case_dir, exist_ok=True)
    mode = spec['mode']
    hist = [(t, None) for (t, p, k) in shist] if shist else edits.history(text0, rnd, spec['length'])
    # second buffer for the interleaved modes
    files = corpus.files()
    other0 = corpus.fragment(corpus.read(files[(spec.get('file_index', 5) * 7 + 3) % len(files)]), rnd)
    other = edits.history(other0, rnd, spec['length'])
    p1 = os.path.join(case_dir, 'buf.py') if mode in ('path', 'two_paths') else None
    p2 = os.path.join(case_dir, 'other.py') if mode == 'two_paths' else None
    roots = [('<case>', case_dir)]
    steps = []   # (text, path, queries, answers)
    incon = []
    for i, (text, near) in enumerate(hist):
        # virtual time: mostly within the 3 s signature-cache window, sometimes beyond it
        clock.now += rnd.choice([0.05, 0.05, 0.05, 0.2, 0.2, 4.0])
        if mode in ('two_paths', 'two_nopath'):
            so = jedi.Script(other[i][0], path=p2)
            try:
                so.complete(*mutate.positions(other[i][0], rnd, 1)[0])
            except Exception:
                pass
            so = None
        ok, s = apimon.call(rec, 'Script', jedi.Script, text, path=p1, witness={'case': spec['id'], 'step': i})
        if not ok:
            steps.append(None)
            continue
        # ---- precondition: parso's incremental tree equals a fresh parse
        fresh_tree = s._inference_state.grammar.parse(text)
        same_tree = treedump.dump(s._module_node) == treedump.dump(fresh_tree)
        rec.ev('c08:tree_precondition_checked')
        if not same_tree:
            rec.ev('c08:parso_incremental_tree_differs')
            incon.append('parso incremental tree differs from a fresh parse (step charged to parso)')
        # ---- hook: cache item identity
        try:
            item = parser_utils.get_parso_cache_node(s._inference_state.grammar,
                                                     None if p1 is None else s.path)
            rec.ev('c08:cache_item_checked')
            if item.node is not s._module_node:
                rec.violate('c08:cache_item_mismatch', 'parso cache item for the buffer does not hold '
                            'the tree of the current Script (derived caches would be keyed on a stale '
                            'item)', case=spec['id'], step=i)
        except KeyError:
            rec.ev('c08:cache_item_absent')
        if shist:
            pos = shist[i][1]
            queries = []
            for (l, c) in pos:
                lt = text.split('\n')[l - 1]
                ms = ['get_signatures'] if lt.endswith('(') else ['complete'] if lt.endswith('.') \
                    else ['infer', 'goto', 'help']
                queries += [[m, l, c] for m in ms]
        else:
            pos = mutate.positions(text, rnd, spec['npos'], near=near)
            queries = [[m, l, c] for (l, c) in pos[:3] for m in METHODS]
        answers = [norm.run_query(s, q[0], q[1], q[2], roots) for q in queries]
        rec.ev('c08:history_queries', len(queries))
        steps.append((text, queries, answers, same_tree))
        s = None
    # ---- compare with fresh processes
    idx = [i for i, st in enumerate(steps) if st is not None]
    chosen = sorted(set(idx[-1:] + rnd.sample(idx[:-1], min(2, len(idx[:-1])))))
    nonempty = 0
    for i in chosen:
        text, queries, answers, same_tree = steps[i]
        job = {'text': text, 'path': p1, 'queries': queries, 'roots': [['<case>', case_dir]]}
        f0 = fresh(job, run_dir, '%s-%d-a' % (spec['id'], i))
        if f0 is None:
            rec.ev('c08:fresh_process_failed')
            incon.append('fresh process failed')
            continue
        more = None
        for qi, q in enumerate(queries):
            mine = answers[qi]
            a = norm.canon(q[0], mine.get('ok')) if 'ok' in mine else json.dumps(mine)
            theirs = f0['answers'][qi]
            b = norm.canon(q[0], theirs.get('ok')) if 'ok' in theirs else json.dumps(theirs)
            rec.ev('c08:fresh_comparisons')
            if theirs.get('ok'):
                nonempty += 1
            if a == b:
                continue
            if not same_tree:
                rec.ev('c08:difference_with_parso_tree_difference_not_charged')
                continue
            if more is None:
                more = [fresh(job, run_dir, '%s-%d-b%d' % (spec['id'], i, k), hashseed=str(k))
                        for k in (1, 2)]
            alts = set()
            for m in more:
                if m is not None:
                    t = m['answers'][qi]
                    alts.add(str(norm.canon(q[0], t.get('ok')) if 'ok' in t else json.dumps(t)))
            if str(a) in alts:
                rec.ev('c08:matched_other_fresh_process')
                continue
            if len(alts | {str(b)}) > 1:
                rec.ev('c08:fresh_processes_disagree_among_themselves')
            if q[0].startswith('complete') and _union_receiver_mechanism(mine.get('ok'), theirs.get('ok')):
                # the mechanism of C16's listed finding (which definition stands for an attribute name
                # shared by several values of the receiver depends on object addresses): the fresh
                # process is not a unique oracle for such an entry; charged to C16, not to the history
                rec.ev('c08:difference_of_the_listed_C16_union_receiver_mechanism_not_charged')
                continue
            rec.violate('c08:history_dependent:' + q[0],
                        'after %d edits (%s mode) %s at %s:%s differs from a fresh process: %s'
                        % (i, mode, q[0], q[1], q[2], _diff(mine.get('ok'), theirs.get('ok'))),
                        case=spec['id'], step=i, query=q, text=text[:6000], mode=mode)
    res = {'id': spec['id'], 'digest': digest(hist[-1][0]), 'violations': rec.violations,
           'events': {k: v for k, v in rec.events.items() if not k.startswith('call:')},
           'nontrivial': nonempty >= 6,
           'sample': {'case': spec['id'], 'mode': mode, 'edits': spec['length'], 'kind': spec['kind'],
                      'edit_kinds': [k for (t, p, k) in shist][1:] if shist else None,
                      'compared_steps': chosen, 'nonempty_compared': nonempty,
                      'final_chars': len(hist[-1][0])}}
    if incon:
        res['inconclusive'] = sorted(set(incon))
    return res


def _union_receiver_mechanism(a, b):
    """Same completion names in the same order; the entries that differ do not point into the case's
    own files on either side (a stale definition of the edited buffer would)."""
    from vf.props.c16 import _same_names_other_definitions
    if not _same_names_other_definitions(a, b):
        return False
    for x, y in zip(a, b):
        if x != y and any(str(e.get('module_path') or '').startswith('<case>') for e in (x, y)):
            return False
    return True


def _diff(a, b):
    if isinstance(a, list) and isinstance(b, list):
        for x, y in zip(a, b):
            if x != y:
                return 'history %s vs fresh %s' % (json.dumps(x, default=str)[:260],
                                                  json.dumps(y, default=str)[:260])
        return 'history has %d results, fresh %d' % (len(a), len(b))
    return 'history %r vs fresh %r' % (str(a)[:200], str(b)[:200])
