"""C13 — Interpreter reflects the live objects; safe mode runs no user descriptors.

Deciding monitors: (a) call counters placed inside user special methods (property getters,
descriptor __get__ incl. metaclass, __getitem__/__iter__/__next__/__call__/__len__/__bool__),
read before and after every Interpreter query in safe mode; (b) dir(obj) vs completions after
`obj.` in both modes; (c) type() of the object really stored at a plain attribute/item path vs
infer().  Unsafe mode doubles as the control arm: counters must move there."""
import importlib.util
import os
import random
import sys

import jedi

from vf import apimon
from vf.gen import objects as gobj

ID = 'C13'
LEVEL = 'exploration'
DECIDING = ['c13:safe_queries_monitored', 'c13:dir_compared', 'c13:plain_paths_compared']
RULE = ('a case = 3 generated classes with random subsets of 23 features (property, classmethod over '
        'property, data/non-data descriptors, class attributes shadowed by metaclass descriptors, slots, metaclass property/descriptor, __getattr__/__getattribute__/__dir__, '
        '__getitem__/__iter__/__next__/__call__/__len__/__bool__, class/instance attributes holding '
        'builtin values, functions, classes, nested lists/dicts/tuples/namespaces; inheritance), '
        'instances placed in the namespace; class source findable (imported from a file) or not '
        '(exec of a string). Expressions: obj., obj.attr., obj[0]., obj()., for x in obj, Class., '
        'Class.attr., len(obj), list(obj)[0]., comprehension over obj, obj if obj else, every plain '
        'path, x {complete, infer, goto, help, get_signatures, get_references} x {safe, unsafe}. '
        'Non-trivial: >= 20 safe queries monitored and the unsafe control arm moved a counter (when '
        'the case has a counted feature); distinct by generated source.')
ASSUMPTIONS = ['__getattr__/__getattribute__/__dir__ are outside the statement\'s list: logged only',
               'plain attribute = instance __dict__ entry, non-descriptor class attribute or slot']
SIZES = {'quick': 64, 'thorough': 600}
TIMEOUT = {'quick': 1500, 'thorough': 5 * 3600}
COUNTED = ('property', '__get__', 'metaclass property', '__getitem__', '__iter__', '__next__',
           '__call__', '__len__', '__bool__')


def plan(tier, seed):
    return [{'id': 'c13-%d' % i, 'findable': i % 2 == 0, 'seed': '%s/C13/%d' % (seed, i)}
            for i in range(SIZES[tier])]


def expressions(rnd, objs, plain, feats_by_class):
    ex = []
    for o in objs:
        ex += ['%s.' % o]
        if o.startswith('o'):
            ex += ['%s[0].' % o, '%s().' % o, 'for x in %s:\n    x.' % o, 'len(%s)' % o,
                   'list(%s)[0].' % o, '[y for y in %s][0].' % o, '(%s if %s else 1).' % (o, o),
                   '%s.prop.' % o, '%s.nd.' % o, '%s.dd.' % o, '%s.meth(' % o, '%s(' % o,
                   '%s.lcm.' % o, '%s.lcm(' % o, '%s.csm' % o, '%s.lprop.' % o, '%s.lcm' % o,
                   '%s.gd.' % o, '%s.gd' % o, '%s.cprop.' % o, '%s.aprop.' % o, '%s.aprop' % o,
                   '%s.tprop.' % o, '%s.tprop' % o, '%s.iprop.' % o, '%s.aprop(' % o,
                   'not %s' % o, '%s.i_list[0].' % o, 'next(%s).' % o, 'bool(%s)' % o,
                   'x, y = %s\nx.' % o, '%s.dynamic_one.' % o,
                   '(%s or 1).' % o, '(%s and 1).' % o, 'if %s:\n    zz = 1\nelse:\n    zz = "s"\nzz' % o,
                   'zz = 1\nwhile %s:\n    zz = "s"\nzz.' % o]
        elif o.startswith('sub_') and o not in ('sub_box', 'sub_iterbox'):
            ex += ['%s[0].' % o, '%s[0]' % o, "%s['k']." % o, "%s['k']" % o, '%s[1].' % o]
        elif o == 'sub_iterbox':
            ex += ["sub_iterbox['it'][0].", "sub_iterbox['it'][0]", "sub_iterbox['tup'][0][0].",
                   "for x in sub_iterbox['it']:\n    x.", "sub_iterbox['tup'][0][1]"]
        elif o == 'sub_box':
            ex += ["sub_box['rows'][0].", "sub_box['rows'][0]", "sub_box['both'][0]['k'].",
                   "sub_box['both'][1][0].", "sub_box['both'][1][0]"]
        elif o.startswith('K'):
            ex += ['%s.cprop.' % o, '%s.mdd.' % o, '%s.mdd' % o, '%s.cprop' % o,
                   '%s.lcm.' % o, '%s.csm(' % o, '%s.lprop' % o,
                   '%s.mprop.' % o, '%s.mnd.' % o, '%s.prop.' % o, '%s.nd.' % o, '%s.c_leaf.' % o,
                   '%s().' % o, '%s.cmeth().' % o, '%s.meta_method(' % o]
    for o in objs:
        if o.endswith('s') and o[:-1] in objs and o.startswith('o'):
            # two instances of one class, one shadowing the non-data descriptor `nd` in its
            # __dict__, resolved one after the other by the same Interpreter
            a, b = o, o[:-1]
            ex += ['[%s.nd, %s.nd][1].' % (a, b), '[%s.nd, %s.nd][0].' % (b, a),
                   '%s.nd\n%s.nd.' % (a, b), '%s.nd\n%s.nd.' % (b, a), '%s.nd\n%s.nd' % (a, b)]
    ex += [p[0] for p in plain] + [p[0] + '.' for p in plain]
    return ex


def run(spec):
    from vf.driver import digest
    rnd = random.Random(spec['seed'])
    rec = apimon.Recorder()
    src, objs, plain, feats_by_class = gobj.gen_source(rnd)
    run_dir = os.environ.get('VERIF_RUN_DIR', '/var/tmp')
    ns = {}
    if spec['findable']:
        d = os.path.join(run_dir, 'c13-' + spec['id'])
        os.makedirs(d, exist_ok=True)
        modname = 'c13mod_%s' % spec['id'].replace('-', '_')
        p = os.path.join(d, modname + '.py')
        with open(p, 'w') as f:
            f.write(src)
        sp = importlib.util.spec_from_file_location(modname, p)
        mod = importlib.util.module_from_spec(sp)
        sys.modules[modname] = mod
        sp.loader.exec_module(mod)
        ns = dict(vars(mod))
    else:
        exec(compile(src, '<c13 generated>', 'exec'), ns)
    COUNTER = ns['COUNTER']
    namespace = {k: ns[k] for k in objs}
    exprs = expressions(rnd, objs, plain, feats_by_class)
    rnd.shuffle(exprs)
    counted_present = any(set(f) & {'property', 'cm_property', 'ann_property', 'nondata_desc', 'data_desc', 'meta_property', 'sub_builtin_desc', 'getdel_desc',
                                    'meta_desc', 'getitem', 'iter', 'next', 'call', 'len', 'bool'}
                          for f in feats_by_class.values())
    control_moved = False
    safe_q = 0
    old = jedi.settings.allow_unsafe_interpreter_executions
    try:
        for safe in (True, False):
            jedi.settings.allow_unsafe_interpreter_executions = not safe
            for e in exprs[:80]:
                lines = e.split('\n')
                if e.endswith('.'):
                    methods = ['complete']
                elif e.endswith('('):
                    methods = ['get_signatures']
                else:
                    methods = ['infer', 'goto', 'help', 'get_references']
                for m in methods:
                    w = {'case': spec['id'], 'expr': e, 'method': m, 'safe': safe,
                         'findable': spec['findable']}
                    before = dict(COUNTER)
                    ok, interp = apimon.call(rec, 'Interpreter', jedi.Interpreter, e, [namespace], witness=w)
                    if not ok:
                        continue
                    if len(lines) == 2 and lines[0].endswith('.nd'):
                        # the first line is resolved first, by the same Interpreter object
                        apimon.call(rec, 'infer', interp.infer, 1, len(lines[0]), witness=w)
                    ok, r = apimon.call(rec, m, getattr(interp, m), len(lines), len(lines[-1]), witness=w)
                    after = dict(COUNTER)
                    moved = {k: after[k] - before.get(k, 0) for k in after if after[k] != before.get(k, 0)}
                    if safe:
                        safe_q += 1
                        rec.ev('c13:safe_queries_monitored')
                        for (owner, what), n in moved.items():
                            if what in COUNTED:
                                kind = what
                                if what == '__get__' and owner.startswith('M'):
                                    kind = 'metaclass descriptor __get__'
                                rec.violate('c13:safe_mode_ran:' + kind,
                                            'safe mode: %s of %s ran %d time(s) during %s on %r'
                                            % (what, owner, n, m, e), **w)
                    elif moved:
                        control_moved = True
                        rec.ev('c13:unsafe_mode_counter_moved')
                    # (b) dir completeness, both modes
                    if ok and m == 'complete' and e.count('.') == 1 and '\n' not in e and e[:-1] in namespace:
                        obj = namespace[e[:-1]]
                        try:
                            want = set(dir(obj))
                        except Exception:
                            want = None
                        if want is not None:
                            got = {c.name for c in r}
                            rec.ev('c13:dir_compared')
                            if want - got:
                                rec.violate('c13:dir_incomplete', 'names of dir(%s) missing from the '
                                            'completions: %s' % (e[:-1], sorted(want - got)[:8]), **w)
            # (c) plain paths
            for expr, tname, kind in plain:
                w = {'case': spec['id'], 'expr': expr, 'safe': safe, 'findable': spec['findable']}
                try:
                    obj = eval(expr, dict(namespace))
                except Exception:
                    continue
                before = dict(COUNTER)
                ok, interp = apimon.call(rec, 'Interpreter', jedi.Interpreter, expr, [namespace], witness=w)
                if not ok:
                    continue
                ok, defs = apimon.call(rec, 'infer', interp.infer, 1, len(expr), witness=w)
                if not ok:
                    continue
                rec.ev('c13:plain_paths_compared')
                exp_name = obj.__name__ if kind in ('class', 'function') else type(obj).__name__
                got = [(d.name, d.type) for d in defs]
                if (exp_name, kind) not in got:
                    rec.violate('c13:plain_path_type', 'infer(%r) gives %s, the stored object is %s %s'
                                % (expr, got, kind, exp_name), **w)
    finally:
        jedi.settings.allow_unsafe_interpreter_executions = old
        if spec['findable']:
            sys.modules.pop(modname, None)
    res = {'id': spec['id'], 'digest': digest(src),
           'violations': [v for v in rec.violations if v['key'].startswith('c13')],
           'events': {k: v for k, v in rec.events.items() if not k.startswith('call:')},
           'nontrivial': safe_q >= 20 and (control_moved or not counted_present),
           'sample': {'case': spec['id'], 'findable': spec['findable'], 'features': feats_by_class,
                      'safe_queries': safe_q, 'unsafe_control_moved': control_moved}}
    if counted_present and not control_moved:
        res['inconclusive'] = ['unsafe control arm moved no counter: monitor may be blind']
    return res
