"""C01 — the query API is total: only ValueError, and exactly for out-of-range positions.

Deciding monitor: the exception contract of vf.apimon around every Script query and every
documented attribute/method of every returned object (keys start with exc: / novalueerror: /
budget:)."""
import random

from vf import apimon, corpus, mutate, sweepwl

ID = 'C01'
LEVEL = 'exploration'
DECIDING = ['c01:ok', 'c01:valueerror_out_of_range']
RULE = ('cases = corpus files (jedi sources, test/completion, test/refactor, test/static_analysis, '
        'stdlib sample; whole or a 120-line window) after 0-4 random small edits (prefix cut, '
        'delete/insert/replace of hostile tokens, line ops, CR/CRLF), token soups, call prefixes being '
        'typed, or small programs over the operator x operand-kind matrix (binary / augmented / unary '
        'operators on literals of every builtin kind, instances with and without operator methods, '
        'classes, builtins, unknown names); each x N '
        'in-range positions (biased to identifier ends, dots, brackets, the edit site) x every '
        'Script query method x attribute sweep of every returned object, plus 7 just-outside '
        'positions x every positional method. A case is non-trivial when at least 20 API calls '
        'completed under the contract; distinct = by digest of the text.')
ASSUMPTIONS = ['typeshed stubs vendored from the jedi 0.20.0 wheel',
               'one live Script per path; private parso cache per worker']

SIZES = {'quick': (240, 5), 'thorough': (4000, 8)}
TIMEOUT = {'quick': 1500, 'thorough': 4 * 3600}


def plan(tier, seed):
    n, npos = SIZES[tier]
    files = corpus.files()
    specs = []
    for i in range(n):
        rnd = random.Random('%s/C01/plan/%d' % (seed, i))
        r_ = rnd.random()
        kind = 'soup' if r_ < 0.06 else 'callprefix' if r_ < 0.14 else 'opmatrix' if r_ < 0.22 else 'file'
        specs.append({'id': 'c01-%d' % i, 'kind': kind,
                      'file_index': rnd.randrange(len(files)),
                      'nmut': rnd.choice([0, 1, 1, 1, 2, 2, 3, 4]), 'npos': npos,
                      'whole': rnd.random() < 0.25, 'seed': '%s/C01/%d' % (seed, i)})
    # witnesses of the listed findings: each is the replayable case that first showed it
    import json
    import pathlib
    kf = json.loads((pathlib.Path(__file__).resolve().parents[2] / 'known_findings.json').read_text())
    k = 0
    for f in kf['findings']:
        w = f.get('witness')
        if f['property'] == 'C01' and f.get('status') == 'open' and isinstance(w, dict) \
                and w.get('replay_spec'):
            k += 1
            specs.append(dict(w['replay_spec'], id='c01w-%d' % k))
    return specs


def build_text(spec):
    rnd = random.Random(spec['seed'])
    near = None
    if spec.get('text') is not None:
        return spec['text'], None, rnd
    if spec['kind'] == 'soup':
        text = mutate.token_soup(rnd)
    else:
        files = corpus.files()
        text = corpus.read(files[spec['file_index'] % len(files)])
        if not spec.get('whole') or len(text) > 15000:
            text = corpus.fragment(text, rnd)
        for _ in range(spec['nmut']):
            text, near = mutate.mutate(text, rnd)
    return text, near, rnd


ARG_TEMPLATES = ['(', '(a.b =', '(x[0]=', '(g()=', '(a, -b=', '(*', '(**', '(a=', '(a=1, *', '(lambda: ', '((',
                 '([x for', '(a if', '(a, b=c.d', '("s" %', '(a)(', '(a).b(', '(a[', '(a:=', '(a=1, b', '(1, 2, ',
                 '(a, *b, c=', '(**k, ', '(a.', '(a, b.c(', '(not ', '(-', '(a == ', '(a.b ==', '(f"{', '(a,)(',
                 '(yield', '(await ', '(x for x in', '(a=b=', '(=', '(,', '(a,,', '(a=,', '(*, ', '(a: int', '(a -> ']


OPERANDS = ['1', '2.5', '2j', "'s'", "b'b'", '[1]', '(1, 2)', '{1: 2}', '{1}', 'None', 'True', 'Money(3)',
            'Plain()', 'Fraction(1, 3)', 'len', 'int', 'unknown_name', 'Money', 'range(3)', '[x for x in (1,)]']
BINOPS = ['+', '-', '*', '/', '//', '%', '**', '@', '<<', '>>', '&', '|', '^', '==', '!=', '<', '>', '<=',
          '>=', 'in', 'not in', 'is', 'is not', 'and', 'or']
AUGOPS = ['+=', '-=', '*=', '/=', '//=', '%=', '**=', '@=', '<<=', '>>=', '&=', '|=', '^=']
OPM_PRELUDE = '''from fractions import Fraction


class Money:
    def __init__(self, v):
        self.v = v

    def __add__(self, o):
        return Money(o)

    __radd__ = __rsub__ = __sub__ = __mul__ = __rmul__ = __add__

    def __lt__(self, o):
        return True


class Plain:
    pass


'''


def run_opmatrix(spec):
    """Small (mostly valid) programs over the operator x operand-kind matrix: binary, augmented
    and unary operators applied to literals of every builtin kind, instances with and without
    operator methods, classes, builtins and an unknown name; every query at every result name."""
    import os
    from vf.driver import digest
    rnd = random.Random(spec['seed'])
    rec = apimon.Recorder()
    case_dir = os.path.join(os.environ.get('VERIF_RUN_DIR', '/var/tmp'), 'cases')
    os.makedirs(case_dir, exist_ok=True)
    base = OPM_PRELUDE.count('\n')
    progs = 0
    for k in range(14):
        a, b = rnd.choice(OPERANDS), rnd.choice(OPERANDS)
        form = rnd.choice(['bin', 'aug', 'aug', 'unary', 'chain', 'aug_attr'])
        if form == 'bin':
            body = ['a = %s' % a, 'b = %s' % b, 'c = a %s b' % rnd.choice(BINOPS), 'c', 'c.real']
        elif form == 'aug':
            body = ['a = %s' % a, 'a %s %s' % (rnd.choice(AUGOPS), b), 'a', 'd = a', 'd.real']
        elif form == 'unary':
            body = ['a = %s' % a, 'c = %s a' % rnd.choice(['-', '+', '~', 'not']), 'c', 'c.real']
        elif form == 'chain':
            body = ['a = %s' % a, 'b = %s' % b, 'c = a %s b %s a' % (rnd.choice(BINOPS), rnd.choice(BINOPS)),
                    'c', 'c.real']
        else:
            body = ['p = Plain()', 'p.field = %s' % a, 'p.field %s %s' % (rnd.choice(AUGOPS), b), 'p.field',
                    'd = p.field', 'd.real']
        text = OPM_PRELUDE + '\n'.join(body) + '\n'
        pos = []
        for i, l in enumerate(body):
            if i >= 2 or form in ('aug', 'aug_attr'):
                pos.append((base + i + 1, len(l)))
                pos.append((base + i + 1, 1))
        path = os.path.join(case_dir, '%s-%d.py' % (spec['id'], k))
        progs += 1
        sweepwl.run_text(rec, text, path, pos[:8],
                         methods=['infer', 'complete', 'goto', 'help', 'get_references_file', 'get_names',
                                  'get_signatures'],
                         witness={'case': spec['id'], 'program': body}, deep=True)
    vio = [v for v in rec.violations if v['key'].startswith(('exc:', 'novalueerror:', 'budget:'))]
    for v in vio:
        v['witness']['text_tail'] = '\n'.join(v['witness'].get('program') or [])
    return {'id': spec['id'], 'digest': digest([spec['seed'], progs]),
            'nontrivial': rec.events.get('c01:ok', 0) >= 20, 'events': rec.events, 'violations': vio,
            'sample': {'case': spec['id'], 'kind': 'opmatrix', 'programs': progs}}


def run_callprefix(spec):
    """Code being typed inside call parentheses: every prefix of a line that contains a call,
    cut after each character from the opening bracket on (the file above the line is kept);
    get_signatures / complete / infer at the end of each prefix, Signature attributes swept."""
    import os
    import re
    from vf.driver import digest
    rnd = random.Random(spec['seed'])
    files = corpus.files()
    text = corpus.fragment(corpus.read(files[spec['file_index'] % len(files)]), rnd, 80)
    lines = text.split('\n')
    cands = [i for i, l in enumerate(lines) if re.search(r'\w\(.*[=,.]', l) and len(l) < 140]
    rec = apimon.Recorder()
    case_dir = os.path.join(os.environ.get('VERIF_RUN_DIR', '/var/tmp'), 'cases')
    os.makedirs(case_dir, exist_ok=True)
    tried = 0
    for li in rnd.sample(cands, min(len(cands), 3)):
        line = lines[li]
        start = line.index('(') + 1
        cuts = list(range(start, len(line) + 1))
        if len(cuts) > 30:
            cuts = sorted(rnd.sample(cuts, 30))
        for k, cut in enumerate(cuts):
            pre = '\n'.join(lines[:li] + [line[:cut]])
            path = os.path.join(case_dir, '%s-%d-%d.py' % (spec['id'], li, k))
            tried += 1
            sweepwl.run_text(rec, pre, path, [(li + 1, cut)],
                             methods=['get_signatures', 'complete', 'infer', 'goto'],
                             witness={'case': spec['id'], 'typed': line[:cut][-60:]}, deep=False)
    # hostile argument text typed into a call of a callable defined in the text
    names = re.findall(r'^(?:def|class) (\w+)', text, re.M)[:40]
    for nm in rnd.sample(names, min(len(names), 2)):
        for k, tpl in enumerate(ARG_TEMPLATES):
            typed = nm + tpl
            pre = text.rstrip('\n') + '\n' + typed
            path = os.path.join(case_dir, '%s-t-%s-%d.py' % (spec['id'], nm, k))
            tried += 1
            ln = pre.count('\n') + 1
            sweepwl.run_text(rec, pre, path, [(ln, len(typed))],
                             methods=['get_signatures', 'complete', 'infer', 'goto'],
                             witness={'case': spec['id'], 'typed': typed}, deep=False)
    vio = [v for v in rec.violations if v['key'].startswith(('exc:', 'novalueerror:', 'budget:'))]
    for v in vio:
        v['witness']['text_tail'] = v['witness'].get('typed')
    return {'id': spec['id'], 'digest': digest([spec['seed'], tried]),
            'nontrivial': rec.events.get('c01:ok', 0) >= 20, 'events': rec.events, 'violations': vio,
            'sample': {'case': spec['id'], 'kind': 'callprefix', 'prefixes_tried': tried}}


def run(spec, deciding_prefixes=('exc:', 'novalueerror:', 'budget:'), methods=None,
        monitors=(apimon.position_monitor,)):
    if spec.get('kind') == 'callprefix':
        return run_callprefix(spec)
    if spec.get('kind') == 'opmatrix':
        return run_opmatrix(spec)
    import os
    from vf.driver import digest
    text, near, rnd = build_text(spec)
    rec = apimon.Recorder()
    case_dir = os.path.join(os.environ.get('VERIF_RUN_DIR', '/var/tmp'), 'cases')
    os.makedirs(case_dir, exist_ok=True)
    path = os.path.join(case_dir, spec['id'].replace('/', '_') + '.py')
    pos = [tuple(p) for p in spec['positions']] if spec.get('positions') else \
        mutate.positions(text, rnd, spec['npos'], near=near)
    outside = mutate.outside_positions(text, rnd)
    sweepwl.run_text(rec, text, path, pos, outside=outside,
                     methods=methods or sweepwl.ALL_METHODS, monitors=monitors,
                     witness={'case': spec['id']})
    vio = [v for v in rec.violations if v['key'].startswith(tuple(deciding_prefixes))]
    for v in vio:
        v['witness']['text'] = text if len(text) < 6000 else text[:6000] + '...'
    return {'id': spec['id'], 'digest': digest(text),
            'nontrivial': rec.events.get('c01:ok', 0) >= 20,
            'events': rec.events, 'violations': vio,
            'sample': {'case': spec['id'], 'kind': spec['kind'], 'chars': len(text),
                       'positions': pos[:4], 'text_head': text[:160],
                       'api_calls_ok': rec.events.get('c01:ok', 0)}}
