"""C14 — a crash of the helper process is contained and recovered from.

Deciding monitor: a fault injector wrapped around the real CompiledSubprocess._send (the
protocol boundary) + an outcome classifier over the query results + /proc, descriptor,
thread and unraisable-exception monitors.  Level fault_enumeration: the cells
(scenario, request index k, phase) are enumerated (thorough: every k) and every injected
fault is confirmed delivered."""
import gc
import io
import os
import signal
import sys
import threading
import time
import warnings

ID = 'C14'
LEVEL = 'fault_enumeration'
DECIDING = ['c14:cells_delivered']
RULE = ('a cell = (scenario of 2-3 queries that need the helper: import resolution, compiled-module '
        'completion/signatures, literal evaluation; request index k in 0..K-1 as counted at '
        '_send; phase in {kill before send, kill after send before reply, reply truncated to '
        '0 / 1 / half / len-1 bytes, helper exits inside the request, helper raises}); for each '
        'cell the scenario runs with the fault, then again undisturbed; checked: <= 1 failed query '
        'per helper death, failure type InternalError (raise phase: the injected type), the later '
        'run equals the reference, no zombie, no fd/thread growth, no unraisable/ResourceWarning; '
        'the same with 2-4 just-dropped Scripts whose helper-side states still await release; '
        'plus up to 3 consecutive crashes and 200 Scripts created and dropped with the helper-side '
        'state count sampled. A cell is non-trivial when the fault was confirmed delivered (helper '
        'pid dead or exception raised in it); distinct by (scenario, k, phase). quick: stratified k; '
        'thorough: every k (exhaustive over the scenario set).')
ASSUMPTIONS = ['Linux /proc semantics; helper = same interpreter (SameEnvironment)',
               'faults are injected at the protocol boundary (_send), not inside pickle itself']
TIMEOUT = {'quick': 1500, 'thorough': 6 * 3600}
MAX_JOBS = 16

SCENARIOS = [
    [('import os\nos.pa', 'complete'), ('x = 1 + 2.0\nx.rea', 'complete'), ('import math\nmath.sq', 'complete')],
    [('import json\njson.lo', 'complete'), ('"".jo', 'complete')],
    [('import math\nmath.sqrt(', 'get_signatures'), ('import sys\nsys.pat', 'complete')],
    [('import collections\ncollections.OrderedDi', 'complete'), ('import itertools\nitertools.cha', 'complete')],
    [('import _socket\n_socket.soc', 'complete'), ('b"".dec', 'complete')],
    [('import time\ntime.sle', 'complete'), ('import time\ntime.sleep(', 'get_signatures')],
    [('x = [1, 2][0] + 3\nx.bit', 'complete'), ('import zlib\nzlib.comp', 'complete')],
    [('import array\narray.arr', 'complete'), ('import os.path\nos.path.jo', 'complete'),
     ('import unicodedata\nunicodedata.nor', 'complete')],
]
PHASES = ['before', 'after', 'trunc0', 'trunc1', 'trunchalf', 'trunclast', 'die', 'raise']


def plan(tier, seed):
    specs = []
    nscen = 3 if tier == 'quick' else len(SCENARIOS)
    for si in range(nscen):
        for ph in PHASES:
            specs.append({'id': 'c14-s%d-%s' % (si, ph), 'mode': 'cells', 'scenario': si, 'phase': ph,
                          'all_k': tier == 'thorough', 'seed': '%s/C14/%d/%s' % (seed, si, ph)})
        specs.append({'id': 'c14-s%d-multi' % si, 'mode': 'multi', 'scenario': si,
                      'stride': 10 if tier == 'thorough' else 40})
        # the helper dies while 2-4 used Scripts have just been dropped and their helper-side
        # states are still waiting to be released (deferred deletion queue not yet flushed)
        specs.append({'id': 'c14-s%d-pending' % si, 'mode': 'pending', 'scenario': si,
                      'all_k': tier == 'thorough'})
    specs.append({'id': 'c14-drop', 'mode': 'drop', 'count': 200})
    return specs


# ------------------------------------------------------------------ process-wide set-up

_S = {'ready': False}


def worker_init():
    if _S['ready']:
        return
    hooks = os.path.join(os.path.dirname(os.path.dirname(os.path.abspath(__file__))), 'helperhooks')
    os.environ['PYTHONPATH'] = hooks
    sys.path.insert(0, hooks)
    warnings.simplefilter('error', ResourceWarning)
    _S['unraisable'] = []
    sys.unraisablehook = lambda u: _S['unraisable'].append(
        '%s: %s (%s)' % (type(u.exc_value).__name__, str(u.exc_value)[:100], str(u.object)[:60]))
    threading.excepthook = lambda a: _S['unraisable'].append(
        'thread %s: %s' % (a.exc_type.__name__, str(a.exc_value)[:100]))
    from jedi.inference.compiled import subprocess as sp
    _S['sp'] = sp
    _S['orig_send'] = sp.CompiledSubprocess._send
    _S['state'] = {'n': 0, 'k': None, 'phase': None, 'delivered': 0, 'crashes': 1, 'pids': []}
    sp.CompiledSubprocess._send = _send
    _S['ready'] = True


def proc_state(pid):
    try:
        with open('/proc/%d/stat' % pid) as f:
            return f.read().split(')')[-1].split()[0]
    except (FileNotFoundError, ProcessLookupError):
        return 'gone'


def wait_dead(pid, timeout=5.0):
    t = time.time()
    while time.time() - t < timeout:
        if proc_state(pid) in ('Z', 'gone'):
            return True
        time.sleep(0.005)
    return False


def children():
    me = os.getpid()
    out = []
    for p in os.listdir('/proc'):
        if p.isdigit():
            try:
                with open('/proc/%s/stat' % p) as f:
                    rest = f.read().split(')')[-1].split()
                if int(rest[1]) == me:
                    out.append((int(p), rest[0]))
            except Exception:
                pass
    return out


class Trunc:
    """Stand-in for the helper's stdout for one read: forwards only the first j bytes of the
    reply, then the helper is killed -- what the parent sees when the helper dies in pickle.dump."""

    def __init__(self, f, how, proc):
        self.f, self.how, self.proc, self.buf = f, how, proc, None

    def _fill(self):
        if self.buf is None:
            data = b''
            fd = self.f.fileno()
            os.set_blocking(fd, False)
            t = time.time()
            quiet = None
            while time.time() - t < 10:
                try:
                    chunk = os.read(fd, 1 << 20)
                except BlockingIOError:
                    chunk = None
                if chunk:
                    data += chunk
                    quiet = time.time()
                elif chunk == b'':
                    break
                elif quiet is not None and time.time() - quiet > 0.08:
                    break
                else:
                    time.sleep(0.005)
            os.set_blocking(fd, True)
            n = {'trunc0': 0, 'trunc1': 1, 'trunchalf': len(data) // 2,
                 'trunclast': max(0, len(data) - 1)}[self.how]
            self.buf = io.BytesIO(data[:n])
            self.proc.kill()
            wait_dead(self.proc.pid)
            _S['state']['reply_len'] = len(data)

    def read(self, k=-1):
        self._fill()
        return self.buf.read(k)

    def readline(self):
        self._fill()
        return self.buf.readline()

    def readinto(self, b):
        self._fill()
        return self.buf.readinto(b)

    def close(self):
        self.f.close()

    def fileno(self):
        return self.f.fileno()


def _send(self, inference_state_id, function, args=(), kwargs={}):
    st = _S['state']
    if function is None:
        # deferred deletion of a helper-side inference state: its timing depends on the
        # garbage collector, so it is not a request index of the scenario
        return _S['orig_send'](self, inference_state_id, function, args, kwargs)
    i = st['n']
    st['n'] += 1
    fire = (st['k'] is not None and i >= st['k'] and st['crashes'] > 0 and not self.is_crashed)
    if fire:
        import verif_probe
        proc = self._get_process()
        ph = st['phase']
        st['crashes'] -= 1
        st['delivered'] += 1
        st['pids'].append(proc.pid)
        if ph == 'before':
            proc.send_signal(signal.SIGKILL)
            wait_dead(proc.pid)
        elif ph == 'after':
            proc.send_signal(signal.SIGSTOP)

            def later():
                time.sleep(0.08)
                proc.send_signal(signal.SIGKILL)
            threading.Thread(target=later, daemon=True).start()
        elif ph.startswith('trunc'):
            proc.stdout = Trunc(proc.stdout, ph, proc)
        elif ph == 'die':
            function, args, kwargs = verif_probe.die, (), {}
        elif ph == 'raise':
            function, args, kwargs = verif_probe.raise_, (), {}
            st['pids'].pop()
    return _S['orig_send'](self, inference_state_id, function, args, kwargs)


def run_scenario(scen):
    import jedi
    out = []
    for code, method in scen:
        try:
            s = jedi.Script(code)
            lines = code.split('\n')
            r = getattr(s, method)(len(lines), len(lines[-1]))
            out.append(['ok', sorted(x.name for x in r)[:12]])
        except BaseException as e:
            if isinstance(e, KeyboardInterrupt):
                raise
            out.append(['exc', type(e).__module__ + '.' + type(e).__name__, str(e)[:160]])
        finally:
            s = None
    return out


def _reference(scen):
    st = _S['state']
    st.update(n=0, k=None, phase=None, delivered=0, crashes=0)
    run_scenario(scen)           # warm caches so that request counts are stable
    st['n'] = 0
    ref = run_scenario(scen)
    K = st['n']
    st['n'] = 0
    ref2 = run_scenario(scen)
    return ref, K, (ref2 == ref and st['n'] == K)


def _classify(rec, spec, scen, ref, k, phase, crashes, r1, r2, st, base):
    """Outcome classifier for one cell; records violations with mechanism keys."""
    w = {'case': spec['id'], 'scenario': spec['scenario'], 'k': k, 'phase': phase,
         'crashes': crashes, 'with_fault': r1, 'after': r2, 'reference': ref}
    fails = [x for x in r1 if x[0] == 'exc']
    allowed = 'jedi.api.exceptions.InternalError'
    for f in fails:
        if phase == 'raise' and f[1] in ('builtins.RuntimeError', allowed):
            continue
        if f[1] != allowed:
            if f[1].endswith('InvalidPythonEnvironment') and crashes > 1:
                # listed finding: the replacement helper dies inside its very first request
                # (version information), which Environment wraps into InvalidPythonEnvironment
                rec.violate('c14:replacement_helper_dies_in_first_request:InvalidPythonEnvironment',
                            'query failed with %s instead of InternalError (%s)' % (f[1], f[2]), **w)
                continue
            rec.violate('c14:foreign_exception:%s:%s' % (_phase_class(phase), f[1].split('.')[-1]),
                        'query failed with %s instead of InternalError (%s)' % (f[1], f[2]), **w)
    if len(fails) > max(1, st['delivered']):
        rec.violate('c14:more_than_one_failure:' + _phase_class(phase),
                    '%d queries failed for %d helper death(s)' % (len(fails), st['delivered']), **w)
    wrong = [(x, y) for x, y in zip(r1, ref) if x[0] == 'ok' and x != y]
    if wrong:
        rec.violate('c14:wrong_answer_during_fault', 'a query that did not fail answered differently '
                    'from the undisturbed run: %s' % (wrong[:1],), **w)
    if r2 != ref:
        key = 'c14:later_run_differs'
        if any(x[0] == 'exc' for x in r2):
            key = 'c14:later_query_fails:' + _phase_class(phase)
        rec.violate(key, 'the undisturbed run after the fault differs from the reference', **w)
    gc.collect()
    z = [c for c in children() if c[1] == 'Z']
    if z:
        time.sleep(0.05)
        gc.collect()
        z = [c for c in children() if c[1] == 'Z']
    if z:
        rec.violate('c14:zombie', 'zombie children after the scenario: %s' % z, **w)
    fds = len(os.listdir('/proc/self/fd'))
    th = threading.active_count()
    if fds > base['fds']:
        rec.violate('c14:fd_leak', 'open descriptors %d -> %d' % (base['fds'], fds), **w)
    if th > base['threads']:
        time.sleep(0.1)
        if threading.active_count() > base['threads']:
            rec.violate('c14:thread_leak', 'threads %d -> %d' % (base['threads'], threading.active_count()), **w)
    if _S['unraisable']:
        rec.violate('c14:unraisable', 'unraisable/thread exception: %s' % _S['unraisable'][:3], **w)
        del _S['unraisable'][:]


def _phase_class(phase):
    return 'truncated_reply' if phase.startswith('trunc') and phase != 'trunc0' else phase


def run(spec):
    from vf import apimon
    from vf.driver import digest
    worker_init()
    rec = apimon.Recorder()
    st = _S['state']
    res = {'id': spec['id'], 'events': rec.events, 'violations': [], 'nontrivial': False}
    watchdog = _Watchdog(spec)
    watchdog.start()
    try:
        if spec['mode'] == 'drop':
            return _run_drop(spec, rec, res)
        scen = SCENARIOS[spec['scenario']]
        ref, K, stable = _reference(scen)
        if any(x[0] == 'exc' for x in ref) or not stable or K == 0:
            res['inconclusive'] = ['reference run of the scenario failed or is not stable']
            res['detail'] = ref
            return res
        gc.collect()
        base = {'fds': len(os.listdir('/proc/self/fd')), 'threads': threading.active_count()}
        cells = []
        if spec['mode'] == 'cells':
            ks = range(K) if spec['all_k'] else sorted(
                set(list(range(min(K, 5))) + list(range(0, K, max(1, K // 14))) + [K - 1]))
            cells = [(k, spec['phase'], 1, 0) for k in ks]
        elif spec['mode'] == 'pending':
            ks = range(K) if spec['all_k'] else sorted({0, 1, K // 2, K - 1})
            cells = [(k, ph, 1, 2 + (i + j) % 3) for i, k in enumerate(ks)
                     for j, ph in enumerate(('idle', 'before', 'after', 'trunchalf', 'die'))]
        else:
            for k in range(0, K, spec['stride']):
                for ph in ('before', 'after', 'die', 'trunc0'):
                    cells.append((k, ph, 2 + (k // max(1, spec['stride'])) % 2, 0))
        delivered = set()
        for k, phase, crashes, pending in cells:
            if pending:
                import jedi
                held = [jedi.Script('import math\nmath.sq\nx = 1 + %d\nx.re' % i) for i in range(pending)]
                st.update(n=0, k=None, crashes=0)
                try:
                    for h in held:
                        h.complete(2, 7)
                        h.complete(4, 4)
                except Exception as e:
                    # undisturbed queries long after the previous cell's fault: they must work
                    rec.violate('c14:later_query_fails:after_recovery:' + type(e).__name__,
                                'an undisturbed query after an earlier, recovered helper death raised '
                                '%s: %s' % (type(e).__name__, str(e)[:200]), case=spec['id'],
                                scenario=spec['scenario'], cell_before=[k, phase])
                    held = h = None
                    continue
                held = h = None
                gc.collect()
                rec.ev('c14:cells_with_pending_state_deletions')
            st.update(n=0, k=k, phase=phase, delivered=0, crashes=crashes, pids=[])
            if phase == 'idle':
                # the helper dies silently between two requests, before the pending deletions
                # (or anything else) are sent to it
                from jedi.api.environment import get_cached_default_environment
                proc = get_cached_default_environment()._get_subprocess()._get_process()
                proc.send_signal(signal.SIGKILL)
                wait_dead(proc.pid)
                st.update(k=None, crashes=0, delivered=1, pids=[proc.pid])
            watchdog.cell = (k, phase)
            watchdog.t0 = time.time()
            r1 = run_scenario(scen)
            ndel = st['delivered']
            pids = list(st['pids'])
            st.update(k=None, crashes=0)
            r2 = run_scenario(scen)
            watchdog.t0 = None
            rec.ev('c14:cells_run')
            confirmed = ndel > 0 and all(proc_state(p) in ('Z', 'gone') for p in pids) and \
                (phase != 'raise' or any(x[0] == 'exc' for x in r1))
            if not confirmed:
                rec.ev('c14:cells_fault_not_delivered')
                continue
            rec.ev('c14:cells_delivered')
            rec.ev('c14:phase_' + phase)
            rec.ev('c14:outcome_%d_failed' % sum(1 for x in r1 if x[0] == 'exc'))
            delivered.add((spec['scenario'], k, phase, crashes, pending))
            st['delivered'] = ndel
            _classify(rec, spec, scen, ref, k, phase, crashes, r1, r2, st, base)
        res['violations'] = rec.violations
        res['nontrivial'] = len(delivered) > 0
        res['cells'] = sorted(map(list, delivered))
        res['digest'] = digest([spec['scenario'], spec.get('phase'), spec['mode']])
        res['sample'] = {'case': spec['id'], 'scenario': [c for c, m in scen], 'requests_K': K,
                         'cells_delivered': len(delivered), 'ks': [c[0] for c in cells][:12]}
        return res
    finally:
        watchdog.stop = True


def _run_drop(spec, rec, res):
    import jedi
    import verif_probe
    st = _S['state']
    st.update(n=0, k=None, crashes=0)
    from jedi.api.environment import get_cached_default_environment
    env = get_cached_default_environment()
    live = []
    worst = 0
    for i in range(spec['count']):
        if i % 5 == 2:
            # a Script whose first and only helper request raises inside the (surviving) helper,
            # and which is then dropped: its helper-side state must be released as well
            st.update(n=0, k=0, phase='raise', crashes=1, delivered=0, pids=[])
            s = jedi.Script('import math\nmath.sq')
            try:
                s.complete(2, 7)
            except Exception:
                rec.ev('c14:scripts_with_only_failing_requests')
            st.update(k=None, crashes=0)
            s = None
            continue
        s = jedi.Script('import math\nmath.sq\nx = 1 + %d\nx.re' % i)
        s.complete(2, 7)
        s.complete(4, 4)
        if i % 7 == 0:
            live.append(s)
        s = None
        if i % 10 == 9:
            gc.collect()
            # the deferred deletion queue is flushed by the next run(); do one, then look
            jedi.Script('import math\nmath.fl').complete(2, 7)
            snap = env._get_subprocess()._send(None, verif_probe.snapshot)
            rec.ev('c14:helper_state_samples')
            worst = max(worst, snap['states'] - len(live))
            if snap['states'] is not None and snap['states'] > len(live) + 2:
                rec.violate('c14:helper_state_leak', 'helper holds %d inference states for %d live '
                            'Scripts after %d created' % (snap['states'], len(live), i + 1),
                            case=spec['id'])
                break
    res['violations'] = rec.violations
    res['nontrivial'] = rec.events.get('c14:helper_state_samples', 0) > 0
    res['digest'] = 'drop'
    res['sample'] = {'case': spec['id'], 'scripts_created': spec['count'], 'kept_alive': len(live),
                     'max_excess_helper_states': worst}
    rec.ev('c14:cells_delivered', rec.events.get('c14:helper_state_samples', 0))
    return res


class _Watchdog(threading.Thread):
    """Decides "a query is blocked while the helper is provably dead" from /proc, not from a
    deadline: after a grace period it looks whether the main thread sits in _send while every
    helper pid of the cell is dead; only then it records a hang and ends the process."""

    def __init__(self, spec):
        super().__init__(daemon=True)
        self.spec, self.cell, self.t0, self.stop = spec, None, None, False

    def run(self):
        import json
        import traceback
        main_id = threading.main_thread().ident
        while not self.stop:
            time.sleep(1.0)
            if self.t0 is None or time.time() - self.t0 < 60:
                continue
            frame = sys._current_frames().get(main_id)
            stack = ''.join(traceback.format_stack(frame)) if frame else ''
            # the helper the main thread is talking to right now (not the ones the cell killed)
            cur_dead = False
            try:
                from jedi.api.environment import get_cached_default_environment
                sub = get_cached_default_environment()._subprocess
                # the finalizer registered by _get_process() holds the Popen object; looking
                # there never starts a helper (calling _get_process() from here could)
                info = sub._cleanup_callable.peek() if sub is not None and \
                    hasattr(sub._cleanup_callable, 'peek') else None
                cur = info[2][0].pid if info else None
                cur_dead = cur is not None and proc_state(cur) in ('Z', 'gone')
            except Exception:
                cur_dead = False
            if cur_dead and ('pickle_load' in stack or '_send' in stack):
                side = os.path.join(os.environ.get('VERIF_RUN_DIR', '/var/tmp'),
                                    'c14-hang-%d.json' % os.getpid())
                with open(side, 'w') as f:
                    json.dump({'case': self.spec['id'], 'cell': self.cell, 'stack': stack[-3000:]}, f)
                os._exit(7)


def finalize(specs, results, ctx):
    import glob
    import json
    vio = []
    for f in glob.glob(os.path.join(ctx['run_dir'], 'c14-hang-*.json')):
        d = json.load(open(f))
        vio.append({'key': 'c14:hang_while_helper_dead', 'case': d['case'],
                    'msg': 'query blocked in _send while the helper was dead (cell %s)' % (d['cell'],),
                    'witness': d})
    cells = sum(len(r.get('cells', [])) for r in results)
    exhaustive = ctx['tier'] == 'thorough'
    return {'violations': vio, 'nontrivial': ['%s' % c for r in results for c in r.get('cells', [])],
            'coverage': {'cells_delivered_total': cells, 'exhaustive': exhaustive,
                         'phases': PHASES}}
