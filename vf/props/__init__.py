from vf import boot  # noqa: F401  -- every property module needs the tree under test importable
