"""C05 — rename rewrites exactly the references and preserves behaviour.

Deciding monitors (offline, per rename request): (a) independent token diff of old and new
text vs. the set get_references reports; (b) trace of the executed old and new program;
(c) get_references asked from other reported occurrences gives the same set; (d) renaming the
fresh name back restores every file byte for byte."""
import io
import os
import random
import shutil
import subprocess
import tokenize

import jedi

from vf import apimon
from vf.boot import PYTHON
from vf.gen import behaviour as beh

ID = 'C05'
LEVEL = 'exploration'
DECIDING = ['c05:renames_checked']
RULE = ('a case = one generated executable program (3-6 units out of 25: functions with positional / '
        'default / keyword arguments, classes, inheritance with super(), closures, nonlocal, '
        'comprehensions, loops, try/except, lambdas, generators, decorators, property / static / '
        'class methods, global, with, *args/**kwargs, walrus; multi-module units: import module, '
        'from-import, aliases, package re-exports, keyword arguments across modules, sub-modules) '
        'whose trace contains no identifier spelling. For up to N identifier occurrences with a '
        'lexical role (role prefix given by the generator) the identifier is renamed to a fresh name: '
        'token diff == get_references, trace(old) == trace(new), same reference set from up to 3 '
        'other occurrences, rename back == original bytes and paths. Non-trivial: >= 5 renames '
        'checked; distinct by program text.')
ASSUMPTIONS = ['program traces are identifier-free by construction (checked: the original trace must '
               'not contain a role-prefixed name)',
               'failures are attributed to the listed mechanisms R1..R5 only when the selected '
               'identifier carries that role']
SIZES = {'quick': (96, 18), 'thorough': (700, 40)}
TIMEOUT = {'quick': 1500, 'thorough': 6 * 3600}
FRESH = 'zq_fresh_name'


def plan(tier, seed):
    n, per = SIZES[tier]
    return [{'id': 'c05-%d' % i, 'per': per, 'seed': '%s/C05/%d' % (seed, i)} for i in range(n)]


def run_program(root):
    try:
        r = subprocess.run([PYTHON, '-S', 'main.py'], cwd=root, capture_output=True, text=True, timeout=30,
                           env={'PATH': os.environ.get('PATH', ''), 'PYTHONDONTWRITEBYTECODE': '1'})
    except subprocess.TimeoutExpired:
        return ('TIMEOUT', '')
    err = r.stderr.strip().split('\n')[-1].split(':')[0] if r.returncode else ''
    return (r.stdout, err)


def write_tree(root, files):
    for rel, text in files.items():
        p = os.path.join(root, rel)
        os.makedirs(os.path.dirname(p), exist_ok=True)
        with open(p, 'w', newline='', encoding='utf-8') as f:
            f.write(text)


def read_tree(root):
    out = {}
    for d, _, fs in os.walk(root):
        if '__pycache__' in d or '.jedi' in d:
            continue
        for f in fs:
            if f.endswith(('.py', '.pyi')):
                p = os.path.join(d, f)
                with open(p, newline='', encoding='utf-8') as fh:
                    out[os.path.relpath(p, root)] = fh.read()
    return out


def name_tokens(text):
    return [(t.start[0], t.start[1], t.string)
            for t in tokenize.generate_tokens(io.StringIO(text).readline) if t.type == tokenize.NAME]


def all_tokens(text):
    return [(t.start[0], t.start[1], t.string, t.type)
            for t in tokenize.generate_tokens(io.StringIO(text).readline)
            if t.type not in (tokenize.NL, tokenize.NEWLINE, tokenize.INDENT, tokenize.DEDENT,
                              tokenize.COMMENT, tokenize.ENDMARKER)]


def refs_set(refs, root):
    out = set()
    for r in refs:
        if r.module_path is None or not str(r.module_path).startswith(root + os.sep):
            continue
        out.add((os.path.relpath(str(r.module_path), root), r.line, r.column, r.type))
    return out


def materialise(refactoring, root, dest):
    """Build the renamed tree in `dest` from get_changed_files()/get_renames(), without apply()."""
    shutil.copytree(root, dest)
    for p, cf in refactoring.get_changed_files().items():
        with open(os.path.join(dest, os.path.relpath(str(p), root)), 'w', newline='', encoding='utf-8') as f:
            f.write(cf.get_new_code())
    renames = []
    for a, b in refactoring.get_renames():
        ra, rb = os.path.relpath(str(a), root), os.path.relpath(str(b), root)
        os.rename(os.path.join(dest, ra), os.path.join(dest, rb))
        renames.append((ra, rb))
    return renames


def map_path(rel, renames):
    for a, b in renames:
        if rel == a:
            return b
        if rel.startswith(a + os.sep):
            return b + rel[len(a):]
    return rel


def run(spec):
    from vf.driver import digest
    rnd = random.Random(spec['seed'])
    rec = apimon.Recorder()
    run_dir = os.environ.get('VERIF_RUN_DIR', '/var/tmp')
    base = os.path.join(run_dir, 'c05-' + spec['id'])
    root = os.path.join(base, 'orig')
    files = beh.generate(rnd, multi=rnd.random() < 0.6)
    write_tree(root, files)
    trace0 = run_program(root)
    res = {'id': spec['id'], 'digest': digest(files), 'events': rec.events, 'violations': [],
           'nontrivial': False}
    if trace0[1] or trace0[0] == 'TIMEOUT' or any(p in trace0[0] for p in beh.ROLE_PREFIXES):
        res['inconclusive'] = ['generated program does not run cleanly or its trace names an identifier']
        res['detail'] = trace0
        return res
    occ = []
    for rel, text in files.items():
        for (l, c, s) in name_tokens(text):
            if beh.role_of(s):
                occ.append((rel, l, c, s))
    rnd.shuffle(occ)
    # prefer distinct identifiers first
    seen, ordered = set(), []
    for o in occ:
        if o[3] not in seen:
            seen.add(o[3])
            ordered.append(o)
    ordered += [o for o in occ if o not in ordered]
    checked = 0
    for k, (rel, line, col, name) in enumerate(ordered[:spec['per']]):
        role = beh.role_of(name)
        listed = beh.LISTED_ROLES.get(role)
        w = {'case': spec['id'], 'file': rel, 'pos': [line, col], 'name': name, 'role': role,
             'files': files}

        def key(kind):
            return 'c05:%s' % listed if listed else 'c05:' + kind
        project = jedi.Project(root)
        path = os.path.join(root, rel)
        ok, s = apimon.call(rec, 'Script', jedi.Script, files[rel], path=path, project=project, witness=w)
        if not ok:
            continue
        ok, refs = apimon.call(rec, 'get_references', s.get_references, line, col, witness=w)
        ok2, ref = apimon.call(rec, 'refactor.rename', s.rename, line, col, new_name=FRESH, witness=w)
        s = None
        if not ok or not ok2 or ref is None or isinstance(ref, Exception):
            rec.ev('c05:rename_refused_or_failed')
            continue
        R0 = refs_set(refs, root)
        dest = os.path.join(base, 'new-%d' % k)
        try:
            renames = materialise(ref, root, dest)
        except Exception as e:
            rec.violate(key('inconsistent_result'), 'renamed tree cannot be built from the announced '
                        'changes: %r' % (e,), **w)
            shutil.rmtree(dest, ignore_errors=True)
            continue
        checked += 1
        rec.ev('c05:renames_checked')
        rec.ev('c05:role_' + role)
        new_files = read_tree(dest)
        # ---- (a) token diff vs references
        D = set()
        bad_diff = None
        for orel, otext in files.items():
            nrel = map_path(orel, renames)
            ntext = new_files.get(nrel)
            if ntext is None:
                bad_diff = 'file %s vanished' % orel
                break
            ot, nt = all_tokens(otext), all_tokens(ntext)
            if len(ot) != len(nt):
                bad_diff = 'token count of %s changed' % orel
                break
            for a, b in zip(ot, nt):
                if a[2] != b[2]:
                    D.add((orel, a[0], a[1]))
                    if a[2] != name or b[2] != FRESH:
                        bad_diff = 'token %r at %s:%s became %r' % (a[2], a[0], a[1], b[2])
        tok_refs = set()
        for (r_rel, l, c, typ) in R0:
            text = files.get(r_rel, '')
            lines = text.split('\n')
            at = lines[l - 1][c:c + len(name)] if 0 < l <= len(lines) else ''
            if at == name:
                tok_refs.add((r_rel, l, c))
            else:
                rec.ev('c05:module_file_reference_not_a_token')
        if bad_diff:
            rec.violate(key('rewrote_something_else'), 'rename of %r: %s' % (name, bad_diff), **w)
        elif D != tok_refs:
            rec.violate(key('diff_differs_from_references'), 'rename of %r rewrote %s but get_references '
                        'reports %s' % (name, sorted(D - tok_refs)[:4] or 'nothing more',
                                        sorted(tok_refs - D)[:4] or 'nothing more'),
                        rewritten=sorted(D), references=sorted(tok_refs), **w)
        # ---- (b) behaviour
        trace1 = run_program(dest)
        rec.ev('c05:programs_executed')
        if trace1 != trace0:
            rec.violate(key('behaviour_changed'), 'renaming %r (%s %s:%s) changes the program: %r -> %r'
                        % (name, rel, line, col, trace0[0][-120:] + trace0[1], trace1[0][-120:] + trace1[1]),
                        rewritten=sorted(D), **w)
        # ---- (c) partition
        others = [t for t in sorted(tok_refs) if t != (rel, line, col)]
        rnd.shuffle(others)
        for (o_rel, ol, oc) in others[:3]:
            ok, s2 = apimon.call(rec, 'Script', jedi.Script, files[o_rel], path=os.path.join(root, o_rel),
                                 project=project, witness=w)
            if not ok:
                continue
            ok, refs2 = apimon.call(rec, 'get_references', s2.get_references, ol, oc, witness=w)
            s2 = None
            if not ok:
                continue
            rec.ev('c05:partition_checks')
            R2 = refs_set(refs2, root)
            if {x[:3] for x in R2} != {x[:3] for x in R0}:
                rec.violate(key('not_a_partition'), 'references of %r from %s:%s:%s differ from those '
                            'from %s:%s:%s by %s' % (name, o_rel, ol, oc, rel, line, col,
                                                     sorted({x[:3] for x in R2} ^ {x[:3] for x in R0})[:4]), **w)
                break
        # ---- (d) round trip
        nrel = map_path(rel, renames)
        if nrel in new_files:
            project2 = jedi.Project(dest)
            ok, s3 = apimon.call(rec, 'Script', jedi.Script, new_files[nrel], path=os.path.join(dest, nrel),
                                 project=project2, witness=w)
            if ok:
                # the occurrence may have moved on its line: find the same ordinal among the
                # fresh-name tokens of the new file
                changed_here = sorted((l, c) for (r_, l, c) in D if r_ == rel)
                fresh_toks = [(l, c) for (l, c, s_) in name_tokens(new_files[nrel]) if s_ == FRESH]
                bl, bc = line, col
                if (line, col) in changed_here and len(fresh_toks) == len(changed_here):
                    bl, bc = fresh_toks[changed_here.index((line, col))]
                ok, back = apimon.call(rec, 'refactor.rename', s3.rename, bl, bc, new_name=name, witness=w)
                s3 = None
                if ok and back is not None and not isinstance(back, Exception):
                    dest2 = os.path.join(base, 'back-%d' % k)
                    try:
                        materialise(back, dest, dest2)
                        rec.ev('c05:round_trips')
                        again = read_tree(dest2)
                        if again != files:
                            diff = sorted(set(again) ^ set(files)) or \
                                [f for f in files if again.get(f) != files[f]]
                            rec.violate(key('round_trip'), 'renaming %r to a fresh name and back does not '
                                        'restore the original: %s' % (name, diff[:4]), **w)
                    except Exception as e:
                        rec.violate(key('round_trip'), 'rename back cannot be materialised: %r' % (e,), **w)
                    shutil.rmtree(dest2, ignore_errors=True)
                else:
                    rec.ev('c05:round_trip_refused')
        shutil.rmtree(dest, ignore_errors=True)
    shutil.rmtree(base, ignore_errors=True)
    res['violations'] = [v for v in rec.violations if v['key'].startswith('c05')]
    res['events'] = {k: v for k, v in rec.events.items() if not k.startswith('call:')}
    res['nontrivial'] = checked >= 5
    res['sample'] = {'case': spec['id'], 'modules': sorted(files), 'renames_checked': checked,
                     'trace': trace0[0][:160], 'main_head': files['main.py'][:240]}
    return res
