"""C19 — project search finds every definition and honours ignore rules.

Deciding monitor: comparison of Project.search / complete_search hit sets with the expected
set computed from the generator's own manifest of definitions and a transcription of the
ignore rule; Script.search against filtered get_names on corpus buffers."""
import os
import random

import jedi

from vf import apimon, corpus

ID = 'C19'
LEVEL = 'exploration'
DECIDING = ['c19:project_queries', 'c19:script_search_compared']
RULE = ('tree cases: a generated project (<= 28 Python files, nested packages to depth 3, ASCII and PEP 3131 non-ASCII identifiers and file names, .py and '
        '.pyi, directories named venv/.venv/.tox/.mypy_cache/__pycache__, .gitignore files at '
        'several levels with plain directory entries in the forms d, /d, d/, a/b) whose every '
        'definition is recorded in a manifest (file, name, kind, line, top-level?, in an ignored '
        'place?); for every defined name x {search, complete_search(prefix)} x {all_scopes}: '
        'nothing expected may be missing, nothing may come from an ignored place. buffer cases: '
        'Script.search(s) on corpus files == get_names(all_scopes) filtered by the same spelling. '
        'Non-trivial: >= 6 project queries with a non-empty expected set; distinct by manifest digest.')
ASSUMPTIONS = ['ignore rule transcribed from the statement: listed directory names anywhere; plain '
               '.gitignore entries, relative ones at any depth below, ones with a slash anchored',
               'complete_search: prefix match required case-sensitively (the pre-filter is '
               'case-sensitive); case-insensitive-only matches are recorded']
SIZES = {'quick': (700, 150), 'thorough': (9000, 1500)}
TIMEOUT = {'quick': 1500, 'thorough': 4 * 3600}
IGN = ['venv', '.venv', '.tox', '.mypy_cache', '__pycache__']
NAMES = ['alpha', 'beta', 'gamma_x', 'Delta', 'eps_fn', 'alpha_two', 'Zeta9',
         'caf\u00e9', '\u03a9mega', '\u00fcber_x']   # PEP 3131 identifiers (NFKC-stable spellings)


def plan(tier, seed):
    nt, nb = SIZES[tier]
    specs = [{'id': 'c19t-%d' % i, 'mode': 'tree', 'seed': '%s/C19/t%d' % (seed, i)} for i in range(nt)]
    files = corpus.files(('jedi', 'completion', 'stdlib'))
    for i in range(nb):
        rnd = random.Random('%s/C19/b%d' % (seed, i))
        specs.append({'id': 'c19b-%d' % i, 'mode': 'buffer', 'file_index': rnd.randrange(len(files)),
                      'seed': '%s/C19/b%d' % (seed, i)})
    specs.append({'id': 'c19w-gitignore-file', 'mode': 'witness_file_entry', 'seed': 'w'})
    return specs


def build(rnd, root, file_entries=False):
    """Returns manifest [(path, name, kind, line, toplevel, ignored)], set of module names."""
    manifest = []
    modules = []   # (path or dir, name, ignored)
    count = [0]

    def mk(d, depth, ignored, rules):
        for i in range(rnd.randint(1, 3)):
            if count[0] >= 26:
                return
            fn = rnd.choice(['mod%d.py' % rnd.randint(0, 4), '__init__.py',
                             rnd.choice(NAMES) + '.py', 'stub%d.pyi' % rnd.randint(0, 2)])
            p = os.path.join(d, fn)
            if os.path.exists(p):
                continue
            count[0] += 1
            lines = []
            for j in range(rnd.randint(1, 3)):
                nm = rnd.choice(NAMES)
                r = rnd.random()
                if r < 0.4:
                    lines.append('def %s():' % nm)
                    manifest.append((p, nm, 'function', len(lines), True, ignored))
                    inner = rnd.choice(NAMES)
                    lines.append('    %s = 1' % inner)
                    manifest.append((p, inner, 'statement', len(lines), False, ignored))
                elif r < 0.7:
                    lines.append('class %s:' % nm)
                    manifest.append((p, nm, 'class', len(lines), True, ignored))
                    inner = rnd.choice(NAMES)
                    lines.append('    def %s(self): pass' % inner)
                    manifest.append((p, inner, 'function', len(lines), False, ignored))
                else:
                    lines.append('%s = %d' % (nm, j))
                    manifest.append((p, nm, 'statement', len(lines), True, ignored))
            with open(p, 'w', encoding='utf-8') as f:
                f.write('\n'.join(lines) + '\n')
            if not fn.startswith('__init__'):
                modules.append((p, fn.rsplit('.', 1)[0], ignored))
        if depth < 3:
            for k in range(rnd.randint(0, 3)):
                sub = rnd.choice(['pkg%d' % rnd.randint(0, 3), rnd.choice(IGN), 'ign%d' % rnd.randint(0, 2),
                                  rnd.choice(NAMES)])
                sp = os.path.join(d, sub)
                if os.path.exists(sp):
                    continue
                os.mkdir(sp)
                ign = ignored or sub in IGN or _matches(rules, sp)
                if sub.startswith('ign') and not ign:
                    form = rnd.choice([sub, '/' + sub, sub + '/', 'REL', 'UP', 'UP'])
                    if form == 'UP' and depth >= 1:
                        # relative entry (with or without trailing slash) written into the
                        # .gitignore of an ancestor directory: matches at any depth below it
                        chain = [root]
                        for part in os.path.relpath(d, root).split(os.sep):
                            chain.append(os.path.join(chain[-1], part))
                        anc = rnd.choice(chain[:-1])
                        with open(os.path.join(anc, '.gitignore'), 'a') as f:
                            f.write(rnd.choice([sub, sub + '/']) + '\n')
                        rules = rules + [('rel', anc, sub)]
                    elif form == 'REL' and depth >= 1:
                        # anchored entry with a slash, written one level up
                        up = os.path.dirname(d)
                        entry = os.path.basename(d) + '/' + sub
                        with open(os.path.join(up, '.gitignore'), 'a') as f:
                            f.write(entry + '\n')
                        rules = rules + [('abs', os.path.join(up, entry))]
                    else:
                        form = sub if form in ('REL', 'UP') else form
                        with open(os.path.join(d, '.gitignore'), 'a') as f:
                            f.write('# comment\n' + form + '\n')
                        bare = form.rstrip('/')
                        if '/' in bare:
                            rules = rules + [('abs', os.path.join(d, bare.lstrip('/')))]
                        else:
                            rules = rules + [('rel', d, bare)]
                    ign = True
                modules.append((sp, sub, ign))
                mk(sp, depth + 1, ign, rules)

    mk(root, 0, False, [])
    return manifest, modules


def _matches(rules, path):
    for r in rules:
        if r[0] == 'abs' and path == r[1]:
            return True
        if r[0] == 'rel' and path.startswith(r[1] + os.sep) and os.path.basename(path) == r[2]:
            return True
    return False


def run(spec):
    if spec['mode'] == 'buffer':
        return run_buffer(spec)
    from vf.driver import digest
    import shutil
    rnd = random.Random(spec['seed'])
    rec = apimon.Recorder()
    run_dir = os.environ.get('VERIF_RUN_DIR', '/var/tmp')
    root = os.path.join(run_dir, 'c19-' + spec['id'], 'proj')
    os.makedirs(root)
    if spec['mode'] == 'witness_file_entry':
        os.makedirs(os.path.join(root, 'pkg'))
        with open(os.path.join(root, 'pkg', 'secret.py'), 'w') as f:
            f.write('def alpha(): pass\n')
        with open(os.path.join(root, 'pkg', 'open.py'), 'w') as f:
            f.write('def alpha(): pass\n')
        with open(os.path.join(root, '.gitignore'), 'w') as f:
            f.write('secret.py\n')
        manifest = [(os.path.join(root, 'pkg', 'secret.py'), 'alpha', 'function', 1, True, True),
                    (os.path.join(root, 'pkg', 'open.py'), 'alpha', 'function', 1, True, False)]
        modules = []
        file_entry = True
    else:
        manifest, modules = build(rnd, root)
        file_entry = False
    project = jedi.Project(root)
    good = 0
    names = sorted({m[1] for m in manifest})
    for name in names:
        for all_scopes in (False, True):
            for complete in (False, True):
                query = name[:max(2, len(name) // 2)] if complete else name
                w = {'case': spec['id'], 'query': query, 'all_scopes': all_scopes, 'complete': complete}
                fn = project.complete_search if complete else project.search
                ok, hits = apimon.call(rec, 'Project.search', lambda: list(fn(query, all_scopes=all_scopes)),
                                       witness=w)
                if not ok:
                    continue
                rec.ev('c19:project_queries')
                got = {(str(h.module_path), h.line, h.name) for h in hits
                       if h.module_path and str(h.module_path).startswith(root) and h.type != 'module'}
                got_mod = {str(h.module_path) for h in hits
                           if h.module_path and str(h.module_path).startswith(root) and h.type == 'module'}

                def wanted(n):
                    return n.startswith(query) if complete else n == query
                want = {(p, line, n) for p, n, k, line, top, ign in manifest
                        if wanted(n) and not ign and (top or all_scopes)}
                ci_only = {(p, line, n) for p, n, k, line, top, ign in manifest
                           if complete and not n.startswith(query) and n.lower().startswith(query.lower())
                           and not ign and (top or all_scopes)}
                if ci_only - got:
                    rec.ev('c19:case_insensitive_only_prefix_missed_recorded')
                from_ignored = {(p, line, n) for p, n, k, line, top, ign in manifest if ign} & got
                ign_dirs = [p for p, n, ign in modules if ign and os.path.isdir(p)]
                from_ignored |= {g for g in got if any(g[0].startswith(d + os.sep) for d in ign_dirs)}
                mod_from_ignored = {g for g in got_mod if any(g.startswith(d + os.sep) or g == d
                                                              for d in ign_dirs)}
                if want:
                    good += 1
                missing = want - got
                if missing:
                    rec.violate('c19:missing', '%s(%r, all_scopes=%s) misses %s'
                                % ('complete_search' if complete else 'search', query, all_scopes,
                                   sorted(missing)[:3]), **w)
                if from_ignored or mod_from_ignored:
                    rec.violate('c19:from_ignored_place:gitignore_file_entry' if file_entry
                                else 'c19:from_ignored_place',
                                'hits from ignored places: %s' % sorted(from_ignored | {(m, 0, '') for m in mod_from_ignored})[:3],
                                **w)
                # modules / packages so named
                if not complete:
                    want_mod = {p if os.path.isfile(p) else p for p, n, ign in modules
                                if n == query and not ign}
                    for p in want_mod:
                        rec.ev('c19:module_hits_expected')
                        inits = {os.path.join(p, '__init__.py'), os.path.join(p, '__init__.pyi')}
                        cands = {p} | inits
                        if os.path.isdir(p) and not any(os.path.exists(c) for c in inits):
                            # namespace directory: reported as a namespace, which has no path
                            if not any(h.type == 'namespace' and h.name == query for h in hits):
                                rec.violate('c19:missing_namespace', 'search(%r) misses the namespace '
                                            'directory %s' % (query, p), **w)
                            continue
                        if not (cands & got_mod):
                            rec.violate('c19:missing_module', 'search(%r) misses the module/package %s'
                                        % (query, p), **w)
    vio = [v for v in rec.violations if v['key'].startswith('c19')]
    files = sorted({m[0][len(root):] for m in manifest})
    shutil.rmtree(os.path.dirname(root), ignore_errors=True)
    return {'id': spec['id'], 'digest': digest([(m[0][len(root):],) + tuple(m[1:]) for m in manifest]),
            'violations': vio, 'nontrivial': good >= 6 or spec['mode'] != 'tree',
            'events': {k: v for k, v in rec.events.items() if not k.startswith('call:')},
            'sample': {'case': spec['id'], 'files': files[:12], 'definitions': len(manifest),
                       'ignored_definitions': sum(1 for m in manifest if m[5]),
                       'queries_with_expected_hits': good}}


def run_buffer(spec):
    from vf.driver import digest
    rnd = random.Random(spec['seed'])
    rec = apimon.Recorder()
    files = corpus.files(('jedi', 'completion', 'stdlib'))
    f = files[spec['file_index'] % len(files)]
    text = corpus.fragment(corpus.read(f), rnd, 300)
    run_dir = os.environ.get('VERIF_RUN_DIR', '/var/tmp')
    os.makedirs(os.path.join(run_dir, 'cases'), exist_ok=True)
    path = os.path.join(run_dir, 'cases', spec['id'] + '.py')
    ok, script = apimon.call(rec, 'Script', jedi.Script, text, path=path)
    res = {'id': spec['id'], 'digest': digest(text), 'violations': [], 'nontrivial': False,
           'events': rec.events}
    if not ok:
        return res
    compared = 0
    for all_scopes in (False, True):
        ok, names = apimon.call(rec, 'get_names', script.get_names, all_scopes=all_scopes)
        if not ok:
            continue
        plain = [n for n in names if not n._name.is_import()]
        spellings = sorted({n.name for n in plain})
        for s in rnd.sample(spellings, min(len(spellings), 8)):
            ok, hits = apimon.call(rec, 'search', lambda: list(script.search(s, all_scopes=all_scopes)))
            if not ok:
                continue
            rec.ev('c19:script_search_compared')
            compared += 1
            got = {(h.line, h.column) for h in hits if h.module_path and str(h.module_path) == path}
            want = {(n.line, n.column) for n in plain if n.name.lower() == s.lower()}
            allowed = {(n.line, n.column) for n in names if n.name.lower() == s.lower()}
            w = {'case': spec['id'], 'string': s, 'all_scopes': all_scopes, 'file': str(f)}
            if want - got:
                rec.violate('c19:script_search_missing', 'Script.search(%r) misses %s that get_names lists'
                            % (s, sorted(want - got)[:3]), **w)
            if got - allowed:
                rec.violate('c19:script_search_extra', 'Script.search(%r) reports %s that get_names does '
                            'not list' % (s, sorted(got - allowed)[:3]), **w)
    res['violations'] = [v for v in rec.violations if v['key'].startswith('c19')]
    res['nontrivial'] = compared >= 4
    res['events'] = {k: v for k, v in rec.events.items() if not k.startswith('call:')}
    res['sample'] = {'case': spec['id'], 'file': str(f), 'searches_compared': compared}
    return res
