"""C17 — every reported source position is faithful to the text.

Deciding monitors: (a) vf.apimon.position_monitor on every Name/Completion/Signature any
query returns that points into the analysed buffer (keys c17:*), (b) the enumeration clause:
get_names(all_scopes, definitions, references) == identifier tokens per stdlib tokenize, each
once, and is_definition() == "binds" per stdlib ast (keys c17e:*)."""
import io
import os
import random
import re
import tokenize
import keyword

import jedi

from vf import apimon, corpus, mutate, oracle_names, sweepwl
from vf.props import c01

ID = 'C17'
LEVEL = 'exploration'
DECIDING = ['c17:positions_checked', 'c17e:tokens_compared']
RULE = ('two case kinds. enum: corpus files that compile, re-encoded (LF / CRLF / CR / tabs / '
        'form feeds / backslash continuations / non-ASCII identifiers / no final newline): '
        'get_names(all_scopes=True, definitions=True, references=True) is compared token by '
        'token with stdlib tokenize NAME tokens (keywords removed) and is_definition() with the '
        'binding classification read off stdlib ast; every returned Name passes the position '
        'monitor. online: C01-style mutated texts x positions x all query methods, every '
        'returned object pointing into the buffer passes the position monitor (text at '
        'line/column == name, range encloses, get_line_code() == that line). project: a generated '
        'three-file project (dataclasses inheriting fields across files, classes, functions) and a '
        'buffer with call / completion probes: results pointing into the other project files are '
        'checked against those files. Non-trivial: at '
        'least 10 positions checked; distinct by text digest.')
ASSUMPTIONS = c01.ASSUMPTIONS + ['CPython 3.12 tokenize/ast as ground truth for tokens and binding',
                                 'del targets and global/nonlocal names: either answer accepted']
SIZES = {'quick': (160, 160, 4), 'thorough': (1000, 1500, 8)}
TIMEOUT = c01.TIMEOUT
FORMATS = ['lf', 'crlf', 'cr', 'nofinal', 'tabs', 'formfeed', 'continuation', 'unicode']


def plan(tier, seed):
    n_enum, n_online, npos = SIZES[tier]
    files = corpus.files()
    specs = []
    for i in range(n_enum):
        rnd = random.Random('%s/C17/plan/%d' % (seed, i))
        specs.append({'id': 'c17e-%d' % i, 'kind': 'enum', 'file_index': rnd.randrange(len(files)),
                      'format': FORMATS[i % len(FORMATS)], 'seed': '%s/C17/e%d' % (seed, i)})
    for i in range(n_online):
        rnd = random.Random('%s/C17/plan/o%d' % (seed, i))
        specs.append({'id': 'c17o-%d' % i, 'kind': 'file', 'file_index': rnd.randrange(len(files)),
                      'nmut': rnd.choice([0, 0, 1, 1, 2]), 'npos': npos,
                      'whole': False, 'format': rnd.choice(FORMATS),
                      'seed': '%s/C17/o%d' % (seed, i)})
    # buffers edited in place: successive Scripts on one path, every reported position checked
    # against the text of the version that was asked
    for i in range(max(8, n_online // 10)):
        specs.append({'id': 'c17h-%d' % i, 'kind': 'history', 'length': 10 if tier == 'quick' else 30,
                      'seed': '%s/C17/h%d' % (seed, i)})
    # multi-file projects: results that point into OTHER project files (signatures, params,
    # completions, goto targets) are checked against the text of the file they name
    for i in range(12 if tier == 'quick' else 120):
        specs.append({'id': 'c17p-%d' % i, 'kind': 'project', 'seed': '%s/C17/p%d' % (seed, i)})
    specs += WITNESSES
    return specs


def run_project(spec):
    from vf.driver import digest
    rnd = random.Random(spec['seed'])
    rec = apimon.Recorder()
    root = os.path.join(os.environ.get('VERIF_RUN_DIR', '/var/tmp'), 'c17-' + spec['id'])
    os.makedirs(os.path.join(root, 'pkg'), exist_ok=True)

    def pad(lo=0, hi=6):
        return ['# filler %d' % k if rnd.random() < 0.5 else '' for k in range(rnd.randint(lo, hi))]
    dc = rnd.choice(['from dataclasses import dataclass', 'import dataclasses\ndataclass = dataclasses.dataclass'])
    base = pad() + [dc, ''] + pad() + [
        '@dataclass', 'class Base:', '    identifier: int'] + pad(0, 2) + ["    revision: str = 'r'", '',
        '    def describe(self, verbose=False):', '        return self.identifier', ''] + pad() + [
        'class Shape:', '    sides = 4', '', '    def __init__(self, width, height=1):',
        '        self.width = width', '        self.height = height', '',
        '    def area(self, scale=1, *, unit=None):', '        return self.width * self.height * scale', ''] + pad() + [
        'def helper(first, second=2, *rest, key=None, **extra):', '    return first', '']
    models = pad(1, 8) + ['from base import Base, Shape', dc, ''] + pad() + [
        '@dataclass', 'class Child(Base):', "    label: str = ''"] + pad(0, 3) + ['    weight: float = 1.0', '',
        '    def label_len(self):', '        return len(self.label)', ''] + pad() + [
        '@dataclass', 'class GrandChild(Child):', '    extra_field: int = 0', ''] + pad() + [
        'class Square(Shape):', '    def __init__(self, side):', '        super().__init__(side, side)', '',
        '    def diagonal(self, precision=2):', '        return self.width', ''] + pad() + [
        'def make(kind, *parts, **options):', '    return Square(1)', '']
    files = {'base.py': '\n'.join(base) + '\n', 'pkg/__init__.py': '', 'pkg/models.py': '\n'.join(models) + '\n'}
    main_lines = pad(0, 4) + ['import sys', 'from base import helper, Shape, Base', 'from pkg.models import Child, GrandChild, Square, make',
                              'from pkg import models', '']
    probes = ['Child(', 'GrandChild(', 'Child(lab', 'GrandChild(ident', 'helper(', 'helper(1, ke', 'Shape(',
              'Square(3).', 'Square(3).area(', 'Square(3).diagonal(', 'models.make(', 'make(1).ar',
              'Child(1).describe(', 'GrandChild(1).label_len', 'Base', 'models.Child', 'Shape(1).wid',
              'models.GrandChild(1).rev']
    rnd.shuffle(probes)
    pos = []
    for pr in probes[:12]:
        main_lines += pad(0, 1)
        main_lines.append(pr)
        pos.append((len(main_lines), len(pr)))
    text = '\n'.join(main_lines) + '\n'
    extra = {}
    for rel, t in files.items():
        fp = os.path.join(root, rel)
        with open(fp, 'w') as f:
            f.write(t)
        extra[fp] = t
    path = os.path.join(root, 'main.py')
    with open(path, 'w') as f:
        f.write(text)
    project = jedi.Project(root)
    sweepwl.run_text(rec, text, path, pos, project=project, extra_texts=extra,
                     methods=['get_signatures', 'complete', 'infer', 'goto', 'goto_follow', 'help',
                              'get_references', 'get_names'],
                     witness={'case': spec['id'], 'files': files, 'main': text}, deep=True, cap=60)
    vio = [v for v in rec.violations if v['key'].startswith('c17')]
    return {'id': spec['id'], 'digest': digest([files, text]), 'violations': vio,
            'events': {k: v for k, v in rec.events.items() if not k.startswith('call:')},
            'nontrivial': rec.events.get('c17:positions_checked', 0) >= 10,
            'sample': {'case': spec['id'], 'kind': 'project', 'files': sorted(files),
                       'positions_checked': rec.events.get('c17:positions_checked', 0)}}


# Witnesses of the listed known findings: run on every invocation so that the finding is
# reported while it still fails (and noticed when it stops failing).
WITNESSES = [
    {'id': 'c17w-dunder-param', 'kind': 'file', 'seed': 'w', 'format': 'lf',
     'text': 'def f(__x, yy):\n    return __x\nf(1, 2)\nf(\n', 'positions': [[1, 8], [2, 13], [4, 2]]},
    {'id': 'c17w-kwarg-completion', 'kind': 'file', 'seed': 'w', 'format': 'lf',
     'text': 'def g(alpha, beta=3):\n    return alpha\ng(al\n', 'positions': [[3, 4], [3, 2]]},
]


def reformat(text, kind, rnd):
    if kind == 'crlf':
        return text.replace('\r\n', '\n').replace('\n', '\r\n')
    if kind == 'cr':
        return text.replace('\r\n', '\n').replace('\n', '\r')
    if kind == 'nofinal':
        return text.rstrip('\r\n')
    if kind == 'tabs':
        return re.sub(r'(?m)^((?:    )+)', lambda m: '\t' * (len(m.group(1)) // 4), text)
    if kind == 'formfeed':
        lines = text.splitlines(keepends=True)
        for i, l in enumerate(lines):
            if l.strip() == '' and rnd.random() < 0.5:
                lines[i] = '\x0c' + l
            elif l[:1].isalpha() and rnd.random() < 0.2:
                lines[i] = '\x0c' + l
        return ''.join(lines)
    if kind == 'continuation':
        return re.sub(r'(?m)^(\s*[A-Za-z_][\w.]* = )(?=[\w(\[])',
                      lambda m: m.group(1) + '\\\n        ' if rnd.random() < 0.5 else m.group(0),
                      text)
    if kind == 'unicode':
        try:
            toks = list(tokenize.generate_tokens(io.StringIO(text).readline))
        except Exception:
            return text
        cands = sorted({t.string for t in toks if t.type == tokenize.NAME
                        and not keyword.iskeyword(t.string) and not t.string.startswith('__')
                        and len(t.string) > 2})
        if not cands:
            return text
        chosen = set(rnd.sample(cands, min(len(cands), 6)))
        lines = text.splitlines(keepends=True)
        for t in reversed(toks):
            if t.type == tokenize.NAME and t.string in chosen and t.start[0] == t.end[0]:
                l = lines[t.start[0] - 1]
                # (some spellings are not NFKC-stable: micro sign, fi ligature - Python treats them
                # as the normalised identifier, the text at the position stays as written)
                pre = ['é', 'é', '\u00b5', '\ufb01'][sum(map(ord, t.string)) % 4]
                lines[t.start[0] - 1] = l[:t.start[1]] + pre + t.string + 'ß' + l[t.end[1]:]
        return ''.join(lines)
    return text


def run_history(spec):
    """An edit history of one buffer (vf.gen.edits.structured_history: parameter lists, bodies,
    names, docstrings of functions change, functions appear and disappear) asked about through a
    new Script on the same path per version, within the validity window of jedi's time-based
    caches (virtual clock, half a second per version)."""
    from vf.driver import digest
    from vf.gen import edits
    from vf.props.c08 import VirtualClock
    import jedi.cache as jcache
    clock = VirtualClock()
    jcache.time = clock
    rnd = random.Random(spec['seed'])
    rec = apimon.Recorder()
    hist = edits.structured_history(rnd, spec['length'])
    case_dir = os.path.join(os.environ.get('VERIF_RUN_DIR', '/var/tmp'), 'cases')
    os.makedirs(case_dir, exist_ok=True)
    path = os.path.join(case_dir, spec['id'] + '.py')
    try:
        for i, (text, pos, kind) in enumerate(hist):
            clock.now += 0.5
            rec.ev('c17h:versions')
            before = len(rec.violations)
            sweepwl.run_text(rec, text, path, pos, witness={'case': spec['id'], 'version': i, 'edit': kind},
                             deep=False, check_fragment=False,
                             methods=['get_signatures', 'infer', 'goto', 'complete', 'help', 'get_references'])
            for v in rec.violations[before:]:
                v['witness']['text'] = text[:6000]
                if i:
                    v['witness']['previous_text'] = hist[i - 1][0][:6000]
    finally:
        import time as _time
        jcache.time = _time
    vio = [v for v in rec.violations if v['key'].startswith('c17')]
    return {'id': spec['id'], 'digest': digest([h[0] for h in hist]),
            'nontrivial': rec.events.get('c17:positions_checked', 0) >= 10,
            'events': {k: v for k, v in rec.events.items() if not k.startswith('call:')},
            'violations': vio,
            'sample': {'case': spec['id'], 'versions': len(hist), 'edits': [h[2] for h in hist][:12],
                       'positions_checked': rec.events.get('c17:positions_checked', 0)}}


def run(spec):
    if spec['kind'] == 'history':
        return run_history(spec)
    if spec['kind'] == 'project':
        return run_project(spec)
    if spec['kind'] != 'enum':
        return run_online(spec)
    from vf.driver import digest
    rnd = random.Random(spec['seed'])
    files = corpus.files()
    text = corpus.read(files[spec['file_index'] % len(files)])
    if len(text) > 60000:
        text = corpus.fragment(text, rnd, 400)
    text = reformat(text, spec['format'], rnd)
    truth = oracle_names.classify(text)
    rec = apimon.Recorder()
    res = {'id': spec['id'], 'digest': digest(text), 'events': rec.events, 'violations': [],
           'nontrivial': False}
    if truth is None:
        res['inconclusive'] = ['text does not tokenize/parse with the stdlib (precondition)']
        return res
    case_dir = os.path.join(os.environ.get('VERIF_RUN_DIR', '/var/tmp'), 'cases')
    os.makedirs(case_dir, exist_ok=True)
    path = os.path.join(case_dir, spec['id'] + '.py')
    w = {'case': spec['id'], 'format': spec['format'],
         'file': str(files[spec['file_index'] % len(files)])}
    ok, script = apimon.call(rec, 'Script', jedi.Script, text, path=path, witness=w)
    ok, names = apimon.call(rec, 'get_names', script.get_names, all_scopes=True,
                            definitions=True, references=True, witness=w) if ok else (False, None)
    if not ok:
        res['violations'] = []  # exception contract is C01's; here: nothing to compare
        res['inconclusive'] = ['get_names raised (reported by C01)']
        return res
    got = {}
    for n in names:
        got.setdefault((n.line, n.column), []).append(n)
    rec.ev('c17e:files')
    for pos, (name, verdict) in truth.items():
        rec.ev('c17e:tokens_compared')
        lst = got.get(pos)
        if not lst:
            if verdict == 'open' and name in oracle_names.SOFT:
                continue
            rec.violate('c17e:token_missing', 'identifier token %r at %s not reported by get_names'
                        % (name, pos), **w)
            continue
        if len(lst) > 1:
            rec.violate('c17e:token_twice', 'identifier token %r at %s reported %d times'
                        % (name, pos, len(lst)), **w)
        n = lst[0]
        if n.name != name:
            key = 'c17e:name_differs'
            if '__' + n.name == name:
                key = 'c17:leading_dunder_stripped'
            rec.violate(key, 'token %r at %s reported under the name %r' % (name, pos, n.name), **w)
        if verdict != 'open':
            rec.ev('c17e:is_definition_compared')
            if n.is_definition() != (verdict == 'bind'):
                rec.violate('c17e:is_definition', 'token %r at %s: is_definition()=%s but the ast '
                            'says it %s' % (name, pos, n.is_definition(),
                                            'binds' if verdict == 'bind' else 'does not bind'),
                            line_text=text.splitlines()[pos[0] - 1] if pos[0] <= len(text.splitlines()) else '', **w)
    for pos, lst in got.items():
        if pos not in truth:
            rec.violate('c17e:token_extra', 'get_names reports %r at %s where tokenize has no '
                        'identifier token' % (lst[0].name, pos), **w)
    # every returned Name through the position monitor (cheap attributes only)
    texts = {path: text}
    for n in names[:400]:
        vals = {}
        for a in ('module_path', 'line', 'column', 'name', 'type'):
            vals[a] = getattr(n, a)
        for m in ('get_definition_start_position', 'get_definition_end_position', 'get_line_code'):
            ok, v = apimon.call(rec, 'get_names>Name.' + m + '()', getattr(n, m), witness=w)
            vals[m] = v if ok else None
        apimon.position_monitor(rec, n, vals, w, lambda p: texts.get(str(p)))
    res['violations'] = [v for v in rec.violations if v['key'].startswith('c17')]
    for v in res['violations']:
        v['witness']['text'] = text[:8000]
    res['nontrivial'] = rec.events.get('c17e:tokens_compared', 0) >= 10
    res['sample'] = {'case': spec['id'], 'file': w['file'], 'format': spec['format'],
                     'tokens_compared': rec.events.get('c17e:tokens_compared', 0),
                     'is_definition_compared': rec.events.get('c17e:is_definition_compared', 0)}
    return res


def run_online(spec):
    from vf.driver import digest
    text, near, rnd = c01.build_text(spec)
    text = reformat(text, spec.get('format', 'lf'), rnd)
    rec = apimon.Recorder()
    case_dir = os.path.join(os.environ.get('VERIF_RUN_DIR', '/var/tmp'), 'cases')
    os.makedirs(case_dir, exist_ok=True)
    path = os.path.join(case_dir, spec['id'] + '.py')
    pos = [tuple(p) for p in spec['positions']] if spec.get('positions') else \
        mutate.positions(text, rnd, spec['npos'], near=None)
    sweepwl.run_text(rec, text, path, pos, witness={'case': spec['id'], 'format': spec.get('format')},
                     deep=False, check_fragment=False)
    vio = [v for v in rec.violations if v['key'].startswith('c17')]
    for v in vio:
        v['witness']['text'] = text[:8000]
    return {'id': spec['id'], 'digest': digest(text),
            'nontrivial': rec.events.get('c17:positions_checked', 0) >= 10,
            'events': {k: v for k, v in rec.events.items() if not k.startswith('call:')},
            'violations': vio,
            'sample': {'case': spec['id'], 'format': spec.get('format'), 'chars': len(text),
                       'positions_checked': rec.events.get('c17:positions_checked', 0)}}
