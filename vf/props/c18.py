"""C18 — get_context, parent() and full_name describe the lexical nesting.

Deciding monitor: join of jedi's answers with the nesting read off the stdlib `ast` of the
same text (keys c18:*); for generated importable packages the dotted module name and
__qualname__ come from really importing the module in an oracle subprocess."""
import ast
import io
import json
import os
import random
import subprocess
import tokenize

import jedi

from vf import apimon, corpus
from vf.boot import PYTHON, REPO
from vf.gen import nesting
from vf.oracle_names import _char_col

ID = 'C18'
LEVEL = 'exploration'
DECIDING = ['c18:context_checked', 'c18:parent_chain_checked', 'c18:full_name_checked']
RULE = ('cases = (a) corpus files that compile, unmodified, at their real path (full_name '
        'claimed for files of the jedi package, whose dotted path is known); (b) generated '
        'modules of nested classes / functions / async functions / lambdas / comprehensions / '
        'decorated definitions placed in a generated package tree and really imported by an '
        'oracle subprocess for module name and __qualname__. For sampled (small files: all) '
        'token positions get_context is joined with the innermost def/class whose body contains '
        'the token (header tokens: the definition or its parent; decorators: the parent); for '
        'every definition the parent() chain is joined with the enclosing defs; for module- and '
        'class-level defs full_name is joined with module + qualname. Non-trivial: >= 10 '
        'positions joined; distinct by text digest.')
ASSUMPTIONS = ['CPython 3.12 ast/tokenize as ground truth for nesting',
               'lambdas and comprehensions are not contexts (upstream tests)',
               'header tokens: definition or its parent both accepted']
SIZES = {'quick': (110, 130, 160), 'thorough': (1200, 2500, 600)}
TIMEOUT = {'quick': 1200, 'thorough': 3 * 3600}


def plan(tier, seed):
    n_corpus, n_gen, ntok = SIZES[tier]
    files = corpus.files(('jedi', 'completion', 'refactor', 'static', 'stdlib'))
    specs = []
    for i in range(n_corpus):
        rnd = random.Random('%s/C18/plan/%d' % (seed, i))
        specs.append({'id': 'c18c-%d' % i, 'kind': 'corpus', 'file_index': rnd.randrange(len(files)),
                      'ntok': ntok, 'seed': '%s/C18/c%d' % (seed, i)})
    for i in range(n_gen):
        # every third generated module is first analysed in an earlier version (one more class or
        # def header line, queried through a Script of its own on the same path): the answers for the
        # current text may not depend on what was asked about the text it was edited from
        specs.append({'id': 'c18g-%d' % i, 'kind': 'gen', 'ntok': ntok * 2, 'edited_from_earlier': i % 3 == 2,
                      'seed': '%s/C18/g%d' % (seed, i)})
    return specs


def earlier_version(text, rnd):
    """A syntactically valid text from which `text` results by deleting one line: a `class X:` /
    `def x():` header put in front of a definition that is not the first statement of its body, so
    that this definition and its later siblings sit in another scope in the earlier version."""
    lines = text.split('\n')
    tree = ast.parse(text)
    spots = []
    for node in ast.walk(tree):
        body = getattr(node, 'body', None)
        if isinstance(node, (ast.ClassDef, ast.FunctionDef, ast.AsyncFunctionDef)) and isinstance(body, list):
            for st in body[1:]:
                if isinstance(st, (ast.ClassDef, ast.FunctionDef, ast.AsyncFunctionDef)):
                    first = min([st.lineno] + [d.lineno for d in st.decorator_list])
                    spots.append((first, node.col_offset))
    rnd.shuffle(spots)
    for first, indent in spots[:6]:
        hdr = rnd.choice(['class Kprev0:', 'class Kprev0(object):', 'def fprev0(self):', 'def fprev0():'])
        cand = '\n'.join(lines[:first - 1] + [' ' * indent + hdr] + lines[first - 1:])
        try:
            ast.parse(cand)
        except SyntaxError:
            continue
        return cand
    return None


class Def:
    def __init__(self, node, parent, name_pos, full_start, body_start, end, kw_pos):
        self.node, self.parent, self.name_pos = node, parent, name_pos
        self.full_start, self.body_start, self.end, self.kw_pos = full_start, body_start, end, kw_pos
        self.name = node.name
        self.is_class = isinstance(node, ast.ClassDef)

    def ident(self):
        return (self.name, self.name_pos[0], self.name_pos[1])

    def ancestors(self):
        out, p = [], self.parent
        while p is not None:
            out.append(p)
            p = p.parent
        return out


def analyse(text):
    tree = ast.parse(text)
    lines = io.StringIO(text, newline=None).readlines()
    toks = list(tokenize.generate_tokens(io.StringIO(text, newline=None).readline))

    def cc(lineno, byte_col):
        return _char_col(lines[lineno - 1], byte_col) if 1 <= lineno <= len(lines) else byte_col

    # name token after def/class keyword, keyed by keyword position
    sig = [t for t in toks if t.type not in (tokenize.COMMENT, tokenize.NL)]
    name_after = {}
    for i, t in enumerate(sig):
        if t.type == tokenize.NAME and t.string in ('def', 'class') and i + 1 < len(sig):
            name_after[t.start] = sig[i + 1].start
    defs = []

    def start_of(stmt):
        decos = getattr(stmt, 'decorator_list', None)
        if decos:
            d = decos[0]
            return (d.lineno, cc(d.lineno, d.col_offset) - 1)
        return (stmt.lineno, cc(stmt.lineno, stmt.col_offset))

    def visit(node, parent):
        for child in ast.iter_child_nodes(node):
            if isinstance(child, (ast.FunctionDef, ast.AsyncFunctionDef, ast.ClassDef)):
                kw = (child.lineno, cc(child.lineno, child.col_offset))
                name_pos = name_after.get(kw)
                if name_pos is None:  # async def: keyword pair
                    for t in sig:
                        if t.start > kw and t.string in ('def', 'class') and t.type == tokenize.NAME:
                            name_pos = name_after.get(t.start)
                            break
                d = Def(child, parent, name_pos, start_of(child), start_of(child.body[0]),
                        (child.end_lineno, cc(child.end_lineno, child.end_col_offset)), kw)
                defs.append(d)
                visit(child, d)
            else:
                visit(child, parent)
    visit(tree, None)
    lambdas = []
    for n in ast.walk(tree):
        if isinstance(n, ast.Lambda):
            lambdas.append(((n.lineno, cc(n.lineno, n.col_offset)),
                            (n.end_lineno, cc(n.end_lineno, n.end_col_offset))))
    return tree, toks, defs, lambdas


def in_class_body_lambda(defs, lambdas, pos):
    """Mechanism tag of a listed finding: pos lies inside a lambda whose nearest enclosing
    def/class body is a class body."""
    inside = [l for l in lambdas if l[0] <= pos < l[1]]
    if not inside:
        return False
    outer = min(inside)  # outermost lambda containing pos
    chain = body_chain(defs, outer[0])
    return bool(chain) and chain[0].is_class


def expected_context(defs, pos):
    """(set of acceptable defs (None = module), description)."""
    chain = [d for d in defs if d.full_start <= pos < d.end]
    chain.sort(key=lambda d: d.full_start)
    inner_body = None
    for d in chain:
        if d.body_start <= pos:
            inner_body = d
        else:
            # pos in d's decorators or header; deeper defs cannot contain it in their body
            if pos < d.kw_pos:
                return {inner_body}, 'decorator'
            return {inner_body, d}, 'header'
    return {inner_body}, 'body'


def body_chain(defs, pos):
    chain = [d for d in defs if d.body_start <= pos < d.end]
    chain.sort(key=lambda d: d.full_start, reverse=True)
    return chain


def name_ident(n):
    if n is None:
        return None
    if n.type == 'module':
        return 'module'
    return (n.name, n.line, n.column)


def run(spec):
    from vf.driver import digest
    rnd = random.Random(spec['seed'])
    rec = apimon.Recorder()
    run_dir = os.environ.get('VERIF_RUN_DIR', '/var/tmp')
    project = None
    expect_module = None
    runtime_names = None
    if spec['kind'] == 'corpus':
        files = corpus.files(('jedi', 'completion', 'refactor', 'static', 'stdlib'))
        f = files[spec['file_index'] % len(files)]
        text = corpus.read(f)
        path = str(f)
        if str(f).startswith(str(REPO / 'jedi')) and f.name != '__main__.py':
            rel = f.relative_to(REPO).with_suffix('')
            parts = list(rel.parts)
            if parts[-1] == '__init__':
                parts.pop()
            expect_module = '.'.join(parts)
            project = jedi.Project(str(REPO))
    else:
        text = nesting.gen_module(rnd, max_depth=rnd.choice([2, 3, 4, 5]), budget=rnd.randint(8, 45))
        depth = rnd.randint(0, 3)
        root = os.path.join(run_dir, 'proj-' + spec['id'])
        pkgs = ['pk%d_%s' % (i, rnd.choice('abc')) for i in range(depth)]
        d = root
        os.makedirs(d, exist_ok=True)
        # layout: regular packages under an explicit sys_path, or the default (smart) project
        # with regular, namespace (no __init__.py) or mixed directories below the project root
        layout = rnd.choice(['regular_explicit', 'regular_smart', 'namespace_smart', 'mixed_smart'])
        for p in pkgs:
            d = os.path.join(d, p)
            os.makedirs(d, exist_ok=True)
            if layout.startswith('regular') or (layout == 'mixed_smart' and rnd.random() < 0.5):
                with open(os.path.join(d, '__init__.py'), 'w') as fh:
                    fh.write('')
        modname = 'mod_' + rnd.choice(['x', 'yy', 'zeta'])
        path = os.path.join(d, modname + '.py')
        with open(path, 'w') as fh:
            fh.write(text)
        expect_module = '.'.join(pkgs + [modname])
        if layout == 'regular_explicit':
            project = jedi.Project(root, sys_path=[root], smart_sys_path=False)
        else:
            project = jedi.Project(root)
        rec.ev('c18:layout_' + layout)
        runtime_names = _import_oracle(root, expect_module)
    res = {'id': spec['id'], 'digest': digest(text), 'events': rec.events, 'violations': [],
           'nontrivial': False}
    try:
        tree, toks, defs, lambdas = analyse(text)
    except (SyntaxError, ValueError, tokenize.TokenError, RecursionError):
        res['inconclusive'] = ['not a syntactically valid file under 3.12 (precondition)']
        return res
    w = {'case': spec['id'], 'path': path}
    if spec.get('edited_from_earlier'):
        prev = earlier_version(text, rnd)
        if prev is None:
            rec.ev('c18:no_earlier_version_possible')
        else:
            okp, sp = apimon.call(rec, 'Script', jedi.Script, prev, path=path, project=project, witness=w)
            if okp:
                okp, pnames = apimon.call(rec, 'get_names', sp.get_names, all_scopes=True, definitions=True,
                                          references=True, witness=w)
                for n in (pnames if okp else []):
                    apimon.call(rec, 'full_name', lambda: n.full_name, witness=w)
                    apimon.call(rec, 'parent', n.parent, witness=w)
                    apimon.call(rec, 'get_context', sp.get_context, n.line, n.column, witness=w)
                    apimon.call(rec, 'goto', sp.goto, n.line, n.column, witness=w)
                rec.ev('c18:earlier_version_queried')
                w['earlier_version'] = prev[:8000]
            sp = pnames = n = None
    ok, script = apimon.call(rec, 'Script', jedi.Script, text, path=path, project=project, witness=w)
    if not ok:
        res['inconclusive'] = ['Script() raised (reported by C01)']
        return res
    if w.get('earlier_version'):
        from vf import treedump
        if treedump.dump(script._module_node) != treedump.dump(script._inference_state.grammar.parse(text)):
            res['inconclusive'] = ['parso incremental tree differs from a fresh parse (charged to parso)']
            return res

    # ---- get_context at token positions
    cand = [t for t in toks if t.type in (tokenize.NAME, tokenize.OP, tokenize.NUMBER,
                                          tokenize.STRING) and t.string]
    if len(cand) > spec['ntok']:
        cand = rnd.sample(cand, spec['ntok'])
    for t in cand:
        pos = t.start
        ok, ctx = apimon.call(rec, 'get_context', script.get_context, pos[0], pos[1],
                              witness=dict(w, pos=list(pos)))
        if not ok:
            continue
        acceptable, where = expected_context(defs, pos)
        acc = {('module' if d is None else d.ident()) for d in acceptable}
        rec.ev('c18:context_checked')
        rec.ev('c18:context_' + where)
        got = name_ident(ctx)
        if got not in acc:
            if in_class_body_lambda(defs, lambdas, pos):
                where = 'lambda_in_class_body'
            rec.violate('c18:context:' + where, 'get_context%s on token %r gives %s, lexical nesting '
                        'says %s' % (pos, t.string, got, sorted(map(str, acc))), pos=list(pos), **w)

    # ---- parent() chains and full_name of definitions
    ok, names = apimon.call(rec, 'get_names', script.get_names, all_scopes=True, definitions=True,
                            references=False, witness=w)
    by_name_pos = {d.name_pos: d for d in defs}
    if ok:
        if len(names) > spec['ntok']:
            names = rnd.sample(names, spec['ntok'])
        for n in names:
            pos = (n.line, n.column)
            d = by_name_pos.get(pos)
            if d is not None:
                chain = d.ancestors()
            elif n.type == 'param':
                # the function whose header holds the parameter, then its ancestors
                holders = [x for x in defs if x.kw_pos <= pos < x.body_start and not x.is_class]
                holders.sort(key=lambda x: x.full_start, reverse=True)
                inner = body_chain(defs, pos)
                if holders and (not inner or holders[0].full_start > inner[0].full_start):
                    chain = [holders[0]] + holders[0].ancestors()
                else:
                    chain = inner  # lambda parameter
            else:
                acceptable, where = expected_context(defs, pos)
                if where != 'body':
                    rec.ev('c18:parent_skipped_header_binding')
                    continue
                chain = body_chain(defs, pos)
            expected = [x.ident() for x in chain] + ['module']
            got = []
            cur = n
            okc = True
            for _ in range(len(expected) + 3):
                okc, cur = apimon.call(rec, 'parent', cur.parent, witness=dict(w, pos=list(pos)))
                if not okc or cur is None:
                    break
                if cur.name == '<lambda>' and cur.type == 'function':
                    # a lambda is a function scope for jedi; whether it is one of "its
                    # lexically enclosing functions" is not settled: accepted, not required
                    rec.ev('c18:lambda_in_chain_accepted')
                else:
                    got.append(name_ident(cur))
                if cur.type == 'module':
                    break
            if not okc:
                continue
            rec.ev('c18:parent_chain_checked')
            if got != expected:
                rec.violate('c18:parent_chain:lambda_in_class_body'
                            if in_class_body_lambda(defs, lambdas, pos) else 'c18:parent_chain', 'parent() chain of %r at %s is %s, lexical nesting '
                            'says %s' % (n.name, pos, got, expected), pos=list(pos), **w)
            if d is not None and expect_module is not None and all(a.is_class for a in chain):
                qual = '.'.join([a.name for a in reversed(chain)] + [d.name])
                if runtime_names is not None:
                    rt = runtime_names.get(qual)
                    if rt is None:
                        rec.ev('c18:full_name_no_runtime_object')
                        continue
                    exp_full = rt
                    rec.ev('c18:full_name_vs_runtime_qualname')
                else:
                    exp_full = expect_module + '.' + qual
                exp_set = {exp_full}
                if runtime_names is None:
                    # every sys.path root that contains the file gives a valid dotted path
                    # (jedi's own helper directory is on the environment's path)
                    for mod in _dotted_candidates(script, path):
                        exp_set.add(mod + '.' + qual)
                rec.ev('c18:full_name_checked')
                if n.full_name not in exp_set:
                    rec.violate('c18:full_name', 'full_name of %r at %s is %r, expected %r'
                                % (n.name, pos, n.full_name, exp_full), pos=list(pos), **w)
    res['violations'] = [v for v in rec.violations if v['key'].startswith('c18')]
    for v in res['violations']:
        v['witness']['text'] = text[:8000]
    res['nontrivial'] = rec.events.get('c18:context_checked', 0) >= 10
    res['events'] = {k: v for k, v in rec.events.items() if not k.startswith('call:')}
    res['sample'] = {'case': spec['id'], 'kind': spec['kind'], 'module': expect_module,
                     'defs': len(defs), 'contexts': rec.events.get('c18:context_checked', 0),
                     'chains': rec.events.get('c18:parent_chain_checked', 0),
                     'full_names': rec.events.get('c18:full_name_checked', 0)}
    return res


def _dotted_candidates(script, path):
    import pathlib
    out = []
    p = pathlib.Path(path).with_suffix('')
    for root in script._inference_state.get_sys_path():
        try:
            rel = p.relative_to(root)
        except ValueError:
            continue
        parts = list(rel.parts)
        if parts and parts[-1] == '__init__':
            parts.pop()
        if parts:
            out.append('.'.join(parts))
    return out


_ORACLE = r'''
import importlib, json, sys, inspect
root, modname = sys.argv[1], sys.argv[2]
sys.path.insert(0, root)
m = importlib.import_module(modname)
out = {}
def walk(ns, prefix):
    for k, v in list(vars(ns).items()):
        if isinstance(v, (staticmethod, classmethod)):
            v = v.__func__
        if isinstance(v, property):
            v = v.fget
        if inspect.isclass(v) or inspect.isfunction(v):
            if getattr(v, '__module__', None) != m.__name__:
                continue
            path = prefix + [k]
            if v.__name__ != k:
                continue
            out['.'.join(path)] = v.__module__ + '.' + v.__qualname__
            if inspect.isclass(v):
                walk(v, path)
walk(m, [])
print(json.dumps(out))
'''


def _import_oracle(root, modname):
    try:
        r = subprocess.run([PYTHON, '-S', '-c', _ORACLE, root, modname], capture_output=True,
                           text=True, timeout=60)
        if r.returncode != 0:
            return None
        return json.loads(r.stdout)
    except (subprocess.TimeoutExpired, ValueError):
        return None
