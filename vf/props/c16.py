"""C16 — results are deterministic and repeatable.

Deciding monitors: (a) offline comparison of normal forms of the same queries answered by
processes that differ in PYTHONHASHSEED and allocation history; (b) on one Script, the first
answer to a query against every later answer after interleavings that include failing
queries; (c) state-restoration invariants on the inference state after every API call."""
import json
import os
import random
import subprocess

import jedi

from vf import apimon, corpus, mutate, norm
from vf.boot import PYTHON, VERIF
from vf.props import c01

ID = 'C16'
LEVEL = 'exploration'
DECIDING = ['c16:cross_process_queries', 'c16:repeat_comparisons', 'c16:invariant_evaluations']
RULE = ('proc cases: a corpus text (window, 0-2 small edits) x P sampled positions x 9 query '
        'methods, answered by 4 fresh processes with PYTHONHASHSEED in {0, 1, 12345, random} and '
        'allocation perturbation {0, 3000, 17000, 500} objects; normal forms compared as ordered '
        'lists (goto/help as sets). project cases: a generated project whose core module is used by '
        '6-60 other modules (flat and in packages; more than jedi scans in one search): project-wide '
        'get_references, rename (changed files), Project.search / complete_search answered by the same '
        'four kinds of processes. repeat cases: on one Script up to 8 distinct queries, first '
        'answers recorded, then 40 (thorough 200) further queries in random order with repeats, '
        'interleaved with failing ones (out-of-range positions -> ValueError, refused refactorings), '
        'every repeated answer compared with the first; after every API call the inference state '
        'is checked for restored switches (pushed_nodes empty, recursion level 0, '
        'flow_analysis_enabled, is_analysis, dynamic_params_depth, predefined_names). '
        'Non-trivial: >= 10 query comparisons with a non-empty answer; distinct by text digest.')
ASSUMPTIONS = c01.ASSUMPTIONS + ['normal form of vf/norm.py is the observable result',
                                 'goto and help compared as sets (order unspecified)']
SIZES = {'quick': (60, 100, 5), 'thorough': (400, 800, 10)}
TIMEOUT = {'quick': 1500, 'thorough': 5 * 3600}
METHODS = ['complete', 'infer', 'goto', 'goto_follow', 'help', 'get_references_file',
           'get_signatures', 'get_context', 'complete_fuzzy']
PROCS = [('0', 0), ('1', 3000), ('12345', 17000), ('random', 500)]

WITNESS_TEXT = 'from typing import Callable\n'


def plan(tier, seed):
    n_proc, n_rep, npos = SIZES[tier]
    files = corpus.files()
    specs = []
    for i in range(n_proc):
        rnd = random.Random('%s/C16/plan/p%d' % (seed, i))
        specs.append({'id': 'c16p-%d' % i, 'mode': 'proc', 'kind': 'file',
                      'file_index': rnd.randrange(len(files)), 'nmut': rnd.choice([0, 0, 1, 2]),
                      'npos': npos, 'whole': False, 'seed': '%s/C16/p%d' % (seed, i)})
    for i in range(n_rep):
        rnd = random.Random('%s/C16/plan/r%d' % (seed, i))
        specs.append({'id': 'c16r-%d' % i, 'mode': 'repeat', 'kind': 'file',
                      'file_index': rnd.randrange(len(files)), 'nmut': rnd.choice([0, 1, 1, 2]),
                      'npos': 4, 'whole': False, 'rounds': 40 if tier == 'quick' else 200,
                      'seed': '%s/C16/r%d' % (seed, i)})
    for i in range(n_rep // 5):
        specs.append({'id': 'c16x-%d' % i, 'mode': 'repeat', 'kind': 'file', 'exhaust': True,
                      'npos': 4, 'rounds': 30 if tier == 'quick' else 120,
                      'seed': '%s/C16/x%d' % (seed, i)})
    for i in range(max(4, n_rep // 10)):
        specs.append({'id': 'c16d-%d' % i, 'mode': 'repeat', 'kind': 'file', 'dynparams': True,
                      'npos': 4, 'rounds': 20 if tier == 'quick' else 80,
                      'seed': '%s/C16/d%d' % (seed, i)})
    for i in range(6 if tier == 'quick' else 40):
        # a generated project in which one name is used by many (also more than 30) modules:
        # project-wide references, rename and project search across hash seeds
        specs.append({'id': 'c16j-%d' % i, 'mode': 'proc', 'kind': 'project',
                      'users': [6, 34, 47, 33, 12, 60][i % 6], 'seed': '%s/C16/j%d' % (seed, i)})
    specs.append({'id': 'c16w-union-dup', 'mode': 'proc', 'kind': 'file', 'seed': 'w',
                  'text': 'import re\nm = re.match("a", "b")\nm.\n', 'positions': [[3, 2]], 'npos': 1,
                  'methods': ['complete'], 'hashseeds': [str(x) for x in range(8)]})
    specs.append({'id': 'c16w-import-dup', 'mode': 'proc', 'kind': 'file', 'seed': 'w',
                  'text': WITNESS_TEXT, 'positions': [[1, 27], [1, 22]], 'npos': 2,
                  'methods': ['complete'], 'hashseeds': [str(x) for x in range(8)]})
    return specs


def run(spec):
    return run_proc(spec) if spec['mode'] == 'proc' else run_repeat(spec)


# ------------------------------------------------------------------ (a) cross-process

def project_case(spec, case_dir):
    """core.py defines shared_fn / SharedCls / shared_val; `users` modules (flat and in two
    packages) import and use them.  Returns (text of core.py, its path, queries, project kwargs)."""
    rnd = random.Random(spec['seed'])
    root = os.path.join(case_dir, 'proj')
    os.makedirs(os.path.join(root, 'pk_a'))
    os.makedirs(os.path.join(root, 'pk_b', 'deep'))
    for d in ('pk_a', 'pk_b', 'pk_b/deep'):
        with open(os.path.join(root, d, '__init__.py'), 'w') as f:
            f.write('')
    core = ('def shared_fn(x):\n    return x\n\n\nclass SharedCls:\n    def meth_s(self):\n'
            '        return shared_fn(self)\n\n\nshared_val = shared_fn(SharedCls())\n')
    with open(os.path.join(root, 'core.py'), 'w') as f:
        f.write(core)
    for i in range(spec['users']):
        d = rnd.choice(['', '', 'pk_a', 'pk_b', 'pk_b/deep'])
        nm = '%s_%02d.py' % (rnd.choice(['user', 'mod', 'zz', 'app']), i)
        body = rnd.choice([
            'from core import shared_fn, SharedCls\n\nres_%d = shared_fn(SharedCls().meth_s())\n' % i,
            'import core\n\n\ndef use_%d():\n    return core.shared_fn(core.shared_val)\n' % i,
            'from core import shared_fn\nfrom core import shared_val as sv\n\nres_%d = [shared_fn(sv)]\n' % i])
        with open(os.path.join(root, d, nm), 'w') as f:
            f.write(body)
    queries = [['get_references', 1, 6], ['get_references', 5, 8], ['get_references', 10, 3],
               ['rename', 1, 6], ['rename', 5, 8], ['project_search', 'shared_fn', 0],
               ['project_search', 'SharedCls', 0], ['project_complete_search', 'shared', 0],
               ['get_references', 6, 10], ['goto', 7, 18], ['infer', 10, 3]]
    return core, os.path.join(root, 'core.py'), queries, {'path': root}


def run_proc(spec):
    from vf.driver import digest
    rec = apimon.Recorder()
    run_dir = os.environ.get('VERIF_RUN_DIR', '/var/tmp')
    case_dir = os.path.join(run_dir, 'c16-' + spec['id'])
    os.makedirs(case_dir, exist_ok=True)
    if spec.get('kind') == 'project':
        text, path, queries, pkw = project_case(spec, case_dir)
        pos = [(q[1], q[2]) for q in queries]
        job = {'text': text, 'path': path, 'queries': queries, 'roots': [['<case>', case_dir]],
               'project': pkw}
        rec.ev('c16:project_cases')
    else:
        text, near, rnd = c01.build_text(spec)
        path = os.path.join(case_dir, 'buf.py')
        pos = [tuple(p) for p in spec['positions']] if spec.get('positions') else \
            mutate.positions(text, rnd, spec['npos'], near=near)
        methods = spec.get('methods', METHODS)
        queries = [[m, l, c] for (l, c) in pos for m in methods]
        job = {'text': text, 'path': path, 'queries': queries, 'roots': [['<case>', case_dir]]}
    procs = PROCS if not spec.get('hashseeds') else [(h, 100 * i) for i, h in enumerate(spec['hashseeds'])]
    answers = []
    for i, (hs, perturb) in enumerate(procs):
        # job files live outside the case directory: file-name completion inside string
        # literals lists the buffer's directory, which must not change while the case runs
        os.makedirs(os.path.join(run_dir, 'jobs'), exist_ok=True)
        jf = os.path.join(run_dir, 'jobs', '%s-%d.json' % (spec['id'], i))
        with open(jf, 'w') as f:
            json.dump(dict(job, perturb=perturb), f)
        env = dict(os.environ, PYTHONHASHSEED=hs, VERIF_RUN_DIR=run_dir, PYTHONPATH=str(VERIF))
        try:
            r = subprocess.run([PYTHON, '-m', 'vf.qrun', jf], cwd=os.getcwd(), env=env,
                               capture_output=True, text=True, timeout=600)
            answers.append(json.loads(r.stdout)['answers'] if r.returncode == 0 else None)
            if r.returncode != 0:
                rec.ev('c16:child_failed')
        except (subprocess.TimeoutExpired, ValueError):
            answers.append(None)
            rec.ev('c16:child_failed')
    good = [a for a in answers if a is not None]
    res = {'id': spec['id'], 'digest': digest([text, spec.get('users'), spec['seed']]
                                              if spec.get('kind') == 'project' else text),
           'events': rec.events, 'violations': [], 'nontrivial': False}
    if len(good) < 2:
        res['inconclusive'] = ['fewer than two oracle processes answered']
        return res
    nonempty = 0
    for qi, q in enumerate(queries):
        forms = [norm.canon(q[0], a[qi].get('ok')) if 'ok' in a[qi] else json.dumps(a[qi])
                 for a in good]
        rec.ev('c16:cross_process_queries')
        if good[0][qi].get('ok'):
            nonempty += 1
        if len(set(map(str, forms))) != 1:
            key = 'c16:cross_process:' + q[0]
            a0 = good[0][qi].get('ok')
            diff = _first_diff(good, qi)
            if q[0].startswith('complete') and _is_stub_source_duplicate(good, qi):
                key = 'c16:import_completion_stub_vs_source'
            elif q[0].startswith('complete') and all(
                    g[qi].get('ok') == good[0][qi].get('ok') or
                    _same_names_other_definitions(good[0][qi].get('ok'), g[qi].get('ok')) for g in good[1:]):
                key = UNION_KEY
            rec.violate(key, 'query %s at %s:%s answered differently by processes with different '
                        'hash seed / allocation history: %s' % (q[0], q[1], q[2], diff),
                        case=spec['id'], query=q, text=text[:6000])
    res['violations'] = rec.violations
    res['nontrivial'] = nonempty >= 5
    res['sample'] = {'case': spec['id'], 'mode': 'proc', 'queries': len(queries),
                     'processes': len(good), 'nonempty': nonempty, 'positions': pos[:3]}
    return res


UNION_KEY = 'c16:same_named_attribute_of_union_receiver:survivor_depends_on_addresses'


def _same_names_other_definitions(a, b):
    """Mechanism of the listed finding: two completion lists with the same names in the same order
    that differ only in WHICH definition stands for a name (after `x.` where x may be one of several
    values, e.g. Optional[Match]: the attributes of all values are collected from a set ordered by
    object address and the first definition of each name is kept)."""
    if not isinstance(a, list) or not isinstance(b, list) or len(a) != len(b) or a == b:
        return False
    for x, y in zip(a, b):
        if not isinstance(x, dict) or not isinstance(y, dict):
            return False
        if x.get('name') != y.get('name') or x.get('complete') != y.get('complete'):
            return False
    return True


def _str_diff(a, b):
    i = 0
    while i < min(len(a), len(b)) and a[i] == b[i]:
        i += 1
    return {'at': i, 'len_first': len(a), 'len_now': len(b), 'first': a[max(0, i - 200):i + 300],
            'now': b[max(0, i - 200):i + 300]}


def _first_diff(good, qi):
    a = good[0][qi].get('ok')
    for other in good[1:]:
        b = other[qi].get('ok')
        if a != b:
            if isinstance(a, list) and isinstance(b, list):
                for x, y in zip(a, b):
                    if x != y:
                        return '%s vs %s' % (json.dumps(x, default=str)[:300], json.dumps(y, default=str)[:300])
                return 'lengths %d vs %d' % (len(a), len(b))
            return '%r vs %r' % (str(a)[:200], str(b)[:200])
    return 'order'


def _is_stub_source_duplicate(good, qi):
    """Mechanism of the listed finding: the differing entries have the same name and differ
    only in which of the stub (.pyi) / source (.py) definition survived de-duplication."""
    a = good[0][qi].get('ok')
    for other in good[1:]:
        b = other[qi].get('ok')
        if a == b:
            continue
        if not isinstance(a, list) or not isinstance(b, list) or len(a) != len(b):
            return False
        for x, y in zip(a, b):
            if x != y:
                if x.get('name') != y.get('name'):
                    return False
                px, py = str(x.get('module_path')), str(y.get('module_path'))
                if not ({px[-4:], py[-4:]} == {'.pyi', '.py'} or {px[-3:], py[-3:]} == {'pyi', '.py'}):
                    return False
    return True


# ------------------------------------------------------------------ (b)+(c) one Script

def check_invariants(rec, script, w):
    st = script._inference_state
    rec.ev('c16:invariant_evaluations')
    bad = []
    if st.recursion_detector.pushed_nodes:
        bad.append('recursion_detector.pushed_nodes not empty')
    erd = st.execution_recursion_detector
    if erd._recursion_level != 0 or erd._parent_execution_funcs:
        bad.append('execution recursion level %s' % erd._recursion_level)
    if st.flow_analysis_enabled is not True:
        bad.append('flow_analysis_enabled left %r' % st.flow_analysis_enabled)
    if st.is_analysis is not False:
        bad.append('is_analysis left %r' % st.is_analysis)
    if st.dynamic_params_depth != 0:
        bad.append('dynamic_params_depth left %r' % st.dynamic_params_depth)
    try:
        if script._get_module_context().predefined_names:
            bad.append('module context predefined_names not empty')
    except Exception:
        pass
    for b in bad:
        rec.violate('c16:state_not_restored:' + b.split(' ')[0], b, **w)


def exhaust_text(rnd):
    """A program in which single queries execute the same user functions many times (so that
    jedi's per-query execution budgets are used up) and other queries need those functions again."""
    n = rnd.randint(2, 4)
    L = []
    for i in range(n):
        L += ['def ident%d(x):' % i, '    return x', '']
        L += ['def helper%d(alpha%d, beta%d=%d):' % (i, i, i, i), '    """doc %d"""' % i,
              '    return [alpha%d]' % i, '']
    L += ['class Box:', '    def __init__(self, v):', '        self.v = v', '    def get(self):',
          '        return self.v', '']
    pos = []
    for i in range(n):
        k = rnd.randint(6, 9)
        L.append('total%d = %s' % (i, ' + '.join('ident%d(%d)' % (i, j) for j in range(k))))
        pos.append((len(L), 3))
        L.append('boxes%d = [%s]' % (i, ', '.join('Box(ident%d(%d)).get()' % (i, j) for j in range(k))))
        pos.append((len(L), 3))
    for i in range(n):
        L.append('ident%d(helper%d)(' % (i, i))
        pos.append((len(L), len(L[-1])))
        L.append('ident%d(helper%d)(1)[0].' % (i, i))
        pos.append((len(L), len(L[-1])))
        L.append('r%d = ident%d(Box(helper%d)).get()' % (i, i, i))
        pos.append((len(L), 1))
        L.append('r%d(' % i)
        pos.append((len(L), len(L[-1])))
    return '\n'.join(L) + '\n', pos


def dynparams_text(rnd):
    """Un-annotated functions whose parameter types jedi finds by searching the call sites
    (dynamic parameter search): recursive helpers that pass their own parameter on to
    themselves, and plain functions called from many sites with different argument types."""
    L = ['class Tree:', '    def __init__(self, left=None, right=None):', '        self.left = left',
         '        self.right = right', '']
    pos = []
    nrec = rnd.randint(1, 3)
    for i in range(nrec):
        shape = rnd.choice(['two', 'one', 'mutual'])
        if shape == 'two':
            L += ['def depth%d(node%d):' % (i, i), '    if node%d is None:' % i, '        return 0',
                  '    return 1 + depth%d(node%d.left) + depth%d(node%d.right)' % (i, i, i, i), '']
            pos.append((len(L) - 1, L[-2].index('node%d.left' % i) + 1))
        elif shape == 'one':
            L += ['def walk%d(item%d, acc%d):' % (i, i, i), '    if not acc%d:' % i, '        return item%d' % i,
                  '    return walk%d(item%d, acc%d[1:])' % (i, i, i), '']
            pos.append((len(L) - 1, L[-2].index('item%d,' % i) + 1))
        else:
            L += ['def ping%d(obj%d, n%d):' % (i, i, i), '    return pong%d(obj%d, n%d - 1) if n%d else obj%d' % (i, i, i, i, i), '',
                  'def pong%d(obj%d, n%d):' % (i, i, i), '    return ping%d(obj%d, n%d)' % (i, i, i), '']
            pos.append((len(L) - 1, L[-2].index('obj%d,' % i) + 1))
    nplain = rnd.randint(1, 3)
    values = ['1', '2.5', "'s'", '[1]', '(1, 2)', "{'k': 1}", 'Tree()', 'None', 'b"x"', '{1, 2}', 'True', '3j']
    plain_pos = []
    for i in range(nplain):
        L += ['def scale%d(value%d, factor%d=2):' % (i, i, i), '    result%d = value%d' % (i, i),
              '    return result%d' % i, '']
        plain_pos.append((len(L) - 2, L[-3].index('value%d' % i) + 1))
    for i in range(nrec):
        L += ['depth%d(Tree(Tree(), None))' % i if any(l.startswith('def depth%d' % i) for l in L) else
              ('walk%d(1, [1, 2])' % i if any(l.startswith('def walk%d' % i) for l in L) else 'ping%d(Tree(), 3)' % i)]
    for i in range(nplain):
        k = rnd.randint(6, 12)
        for v in rnd.sample(values, k):
            L.append('scale%d(%s)' % (i, v))
    return '\n'.join(L) + '\n', pos, plain_pos


def run_repeat(spec):
    from vf.driver import digest
    dyn = None
    if spec.get('dynparams'):
        rnd = random.Random(spec['seed'])
        text, rec_pos, plain_pos = dynparams_text(rnd)
        fixed_pos = None
        near = None
        dyn = (rec_pos, plain_pos)
    elif spec.get('exhaust'):
        rnd = random.Random(spec['seed'])
        text, fixed_pos = exhaust_text(rnd)
        near = None
    else:
        text, near, rnd = c01.build_text(spec)
        fixed_pos = None
    rec = apimon.Recorder()
    run_dir = os.environ.get('VERIF_RUN_DIR', '/var/tmp')
    case_dir = os.path.join(run_dir, 'c16-' + spec['id'])
    os.makedirs(case_dir, exist_ok=True)
    path = os.path.join(case_dir, 'buf.py')
    roots = [('<case>', case_dir)]
    w = {'case': spec['id']}
    if spec.get('exhaust') and 'def helper0(alpha0, beta0=0):' in text:
        # the process has just analysed ANOTHER text on this very path (the same buffer before an
        # edit elsewhere in it: helper0 had one more parameter): the answers for the present text
        # may not depend on that
        prev = text.replace('def helper0(alpha0, beta0=0):', 'def helper0(alpha0, beta0=0, gamma0=1):')
        ps = jedi.Script(prev, path=path)
        for li, lt in enumerate(prev.split('\n'), 1):
            if lt.endswith('(') and not lt.startswith(('def ', ' ')):
                norm.run_query(ps, 'get_signatures', li, len(lt), roots)
        ps = None
        rec.ev('c16:earlier_text_on_the_same_path_analysed_first')
    ok, script = apimon.call(rec, 'Script', jedi.Script, text, path=path, witness=w)
    res = {'id': spec['id'], 'digest': digest(text), 'events': rec.events, 'violations': [],
           'nontrivial': False}
    if not ok:
        res['inconclusive'] = ['Script() raised (C01)']
        return res
    if dyn:
        # queries on the parameters of the recursive helpers first, those on the many-call-site
        # parameters after them (and all of them again in random order later)
        pool = [(m, l, c) for (l, c) in dyn[0] for m in ('infer', 'goto', 'help')] + \
               [(m, l, c) for (l, c) in dyn[1] for m in ('infer', 'help')]
    else:
        pos = fixed_pos or mutate.positions(text, rnd, spec['npos'], near=near)
        pool = [(m, l, c) for (l, c) in pos for m in METHODS + ['get_names', 'rename']]
        rnd.shuffle(pool)
        pool = pool[:8]
    exhausting = dependent = None
    if fixed_pos:
        # directed: every budget-exhausting query is followed by every query that needs the
        # same functions executed again
        tl = text.split('\n')
        exhausting, dependent = [], []
        for (l, c) in fixed_pos:
            lt = tl[l - 1]
            if lt.startswith(('total', 'boxes')):
                exhausting += [('infer', l, c), ('help', l, c)]
            elif lt.endswith('('):
                dependent += [('get_signatures', l, c)]
            elif lt.endswith('.'):
                dependent += [('complete', l, c)]
            else:
                dependent += [('infer', l, c), ('goto_follow', l, c)]
        pool = exhausting + dependent
    bad_pos = mutate.outside_positions(text, rnd)
    failing = [(m, l, c) for (l, c) in bad_pos[:3] for m in ('complete', 'infer', 'rename')]
    # The reference answer of every query comes from a Script that is asked nothing else (a new
    # Script object on a path of its own holding the same text), so that an answer which is
    # already bent by the queries asked before it on the main Script is noticed too.
    first = {}
    first_raw = {}
    nonempty = 0
    for qi, q in enumerate(pool):
        # (a directory of its own beside the case directory, never inside it: file-name
        # completion lists the buffer's directory, which must look the same for both Scripts)
        fdir = os.path.join(run_dir, 'c16-%s-fresh%d' % (spec['id'], qi))
        os.makedirs(fdir, exist_ok=True)
        fs = jedi.Script(text, path=os.path.join(fdir, 'buf.py'))
        ans = norm.run_query(fs, q[0], q[1], q[2], [('<case>', fdir)])
        fs = None
        first[q] = norm.canon(q[0], ans.get('ok')) if 'ok' in ans else json.dumps(ans)
        first_raw[q] = ans.get('ok')
        if ans.get('ok'):
            nonempty += 1
        rec.ev('c16:fresh_script_references')
    seq = list(pool)
    if exhausting:
        seq = []
        for a in exhausting:
            seq.append(a)
            seq += dependent
    for _ in range(spec['rounds']):
        seq.append(rnd.choice(pool) if rnd.random() < 0.75 else rnd.choice(failing))
    from vf import work
    aborted = 0
    for step, q in enumerate(seq):
        # a failing query in between: some queries are aborted at a random depth by the work
        # budget (a BaseException raised inside jedi, like an interrupt or a RecursionError would
        # be); switches restored in finally blocks must survive that, and later answers too
        # (only in the random cases and only in the second half of the sequence, so that the
        # directed cases and the first half stay free of it)
        if not fixed_pos and not dyn and step >= len(seq) // 2 and rnd.random() < 0.2:
            victim = rnd.choice(pool)
            try:
                with work.measure(rnd.choice([300, 2000, 10000, 40000])):
                    norm.run_query(script, victim[0], victim[1], victim[2], roots)
            except work.WorkBudgetExceeded:
                aborted += 1
                rec.ev('c16:queries_aborted_midway')
            check_invariants(rec, script, dict(w, after_aborted=list(victim)))
        ans = norm.run_query(script, q[0], q[1], q[2], roots)
        check_invariants(rec, script, dict(w, after=list(q)))
        if q in failing:
            rec.ev('c16:failing_queries_interleaved')
            continue
        key = norm.canon(q[0], ans.get('ok')) if 'ok' in ans else json.dumps(ans)
        rec.ev('c16:repeat_comparisons')
        if key != first[q]:
            exc_side = str(first[q]).startswith('{"exc"') or str(key).startswith('{"exc"')
            union = q[0].startswith('complete') and _same_names_other_definitions(
                first_raw.get(q), ans.get('ok'))
            rec.violate(UNION_KEY if union else
                        'c16:repeat_after_aborted_query' if aborted else
                        'c16:repeat:query_that_raises_an_internal_exception' if exc_side else
                        'c16:repeat:budget_exhausting_query_after_another' if exhausting and q in exhausting
                        else 'c16:repeat:' + q[0], 'query %s at %s:%s answered differently after other queries on '
                        'the same Script than on a Script asked nothing else' % q, first=str(first[q])[:600],
                        now=str(key)[:600], difference=_str_diff(str(first[q]), str(key)),
                        sequence_before=[list(x) for x in seq[:step]][-40:], text=text[:6000], **w)
    res['violations'] = rec.violations
    res['nontrivial'] = nonempty >= 2 and rec.events.get('c16:repeat_comparisons', 0) >= 10
    res['sample'] = {'case': spec['id'], 'mode': 'repeat', 'distinct_queries': len(pool),
                     'sequence_length': len(seq), 'nonempty_first_answers': nonempty}
    return res
