"""C02 — inferred types agree with what the program does when executed.

Deciding monitor: offline join, probe by probe, of the run-time class observed by an
ast-instrumented copy of the program (executed in a subprocess; the text given to jedi is
unmodified) with the definitions Script.infer reports at that expression."""
import ast
import json
import os
import random
import subprocess

import jedi

from vf import apimon
from vf.boot import PYTHON
from vf.gen import valueflow as vfl

ID = 'C02'
LEVEL = 'exploration'
DECIDING = ['c02:probes_joined']
RULE = ('a case = 6 generated programs; each composes 6-14 of 62 combinators (calls/returns, tuple '
        'return+index+unpacking, defaults, *args/**kwargs, keyword-only, closures, lambdas, '
        'generators, functools.wraps and plain decorators, isinstance narrowing, annotations, '
        'docstring types, attributes set in __init__, inherited/sub-class methods, properties, '
        'classmethod/staticmethod constructors, __call__/__getitem__/__enter__/__iter__, container '
        'literals and indexing, comprehensions, conditional expressions, list.append / d[k]=v, '
        'try/if merges, aliases, walrus, augmented assignment, arithmetic, str methods, len, type(), '
        'class/function/bound-method references) over each other\'s results, instances of three '
        'source classes and builtin literals, in one module or split over lib.py + main.py. Every '
        'result variable is probed where the run reaches it: the run-time class must be among the '
        'definitions infer reports (same kind; class statement file+line for source classes); for '
        'probes the generator flags single-valued, exactly that definition. Non-trivial: >= 10 '
        'probes joined; distinct by program text.')
ASSUMPTIONS = ['values of interpreter-internal types (generators, method wrappers, ...) are not compared',
               'exactness is claimed only for combinators calibrated silent on the unchanged tree '
               '(vf.gen.valueflow.EXACT_FORMS) with single-valued inputs',
               'names inside function bodies are not probed (context-insensitive by design of the engine)']
SIZES = {'quick': 100, 'thorough': 900}
TIMEOUT = {'quick': 1200, 'thorough': 4 * 3600}
PLAIN = {'int', 'str', 'float', 'bool', 'NoneType', 'list', 'dict', 'tuple', 'set', 'frozenset',
         'bytes', 'complex'}
PER_CASE = 6

WITNESSES = [
    ('c02:zero_trip_for_rebinding', 'class A: pass\nclass C: pass\nv0 = A()\nfor _i in []:\n    v0 = C()\nv0\n', [6]),
    ('c02:star_unpacking_index', 'class A: pass\nclass B: pass\nclass C: pass\n*h0, v0 = [A(), B(), C()]\nv0\n', [5]),
]


def plan(tier, seed):
    specs = [{'id': 'c02-%d' % i, 'seed': '%s/C02/%d' % (seed, i)} for i in range(SIZES[tier])]
    for k, (key, text, lines) in enumerate(WITNESSES):
        specs.append({'id': 'c02w-%d' % k, 'witness': k, 'seed': 'w'})
    return specs


def observe(case_dir, probe_lines):
    with open(os.path.join(case_dir, 'probes.json'), 'w') as f:
        json.dump(sorted(probe_lines), f)
    try:
        r = subprocess.run([PYTHON, '-S', '-c', vfl.RUNNER, case_dir], capture_output=True, text=True,
                           timeout=60)
        return json.loads(r.stdout)
    except Exception:
        return None
    finally:
        try:
            os.unlink(os.path.join(case_dir, 'probes.json'))
        except OSError:
            pass


def class_lines(files, case_dir):
    out = {}
    for rel, text in files.items():
        for n in ast.walk(ast.parse(text)):
            if isinstance(n, ast.ClassDef):
                out[(os.path.join(case_dir, rel), n.name)] = n.lineno
    return out


def join(rec, files, case_dir, probes, res, w0, forced_key=None):
    """probes: list of dict(line, tag, single). Returns number of probes joined."""
    main_path = os.path.join(case_dir, 'main.py')
    ok, s = apimon.call(rec, 'Script', jedi.Script, files['main.py'], path=main_path,
                        project=jedi.Project(case_dir), witness=w0)
    if not ok:
        return 0
    cl = class_lines(files, case_dir)
    joined = 0
    for p in probes:
        obs = res['obs'].get(str(p['line']))
        if not obs:
            rec.ev('c02:probes_not_reached')
            continue
        w = dict(w0, probe_line=p['line'], tag=p['tag'], text=files['main.py'])
        with apimon.LimitWatch() as lw:
            ok, defs = apimon.call(rec, 'infer', s.infer, p['line'], 0, witness=w)
        if not ok:
            continue
        if lw.hits:
            # the query ran into one of jedi's documented give-up limits: outside the quantifier
            rec.ev('c02:probes_inconclusive_give_up_limit_hit')
            continue
        got = set()
        for d in defs:
            mp = str(d.module_path) if d.module_path else None
            if d.type in ('instance', 'class') and mp and mp.startswith(case_dir):
                got.add((d.type, d.name, mp, d.line))
            else:
                got.add((d.type, d.name, None, None))
        claimed = 0
        for kind, mod, qual, where in obs:
            if kind == 'function':
                want = ('function', qual, None, None)
            elif kind == 'module':
                want = ('module', qual, None, None)
            elif mod in ('__main__', 'lib'):
                f = os.path.join(case_dir, 'main.py' if mod == '__main__' else 'lib.py')
                want = (kind, qual, f, cl.get((f, qual)))
            elif qual in PLAIN:
                want = (kind, qual, None, None)
            else:
                rec.ev('c02:interpreter_internal_type_not_compared')
                continue
            claimed += 1
            rec.ev('c02:probes_joined')
            rec.ev('c02:form_' + p['tag'])
            if want not in got:
                key = forced_key or 'c02:runtime_class_not_inferred:' + p['tag']
                twin = ('instance' if kind == 'class' else 'class', qual, want[2], want[3])
                if kind in ('class', 'instance') and twin in got:
                    # listed finding: a class object and an instance of that class reach the same
                    # expression; Name equality ignores `type`, so the API's set keeps one of them
                    key = 'c02:class_and_instance_merged'
                rec.violate(key,
                            'run-time value is %s %s (%s:%s) but infer reports %s'
                            % (kind, qual, os.path.basename(want[2] or '-'), want[3],
                               sorted((g[0], g[1], os.path.basename(g[2] or '-'), g[3]) for g in got)), **w)
        if claimed:
            joined += 1
        if p.get('single') and len(obs) == 1 and claimed == 1:
            rec.ev('c02:exactness_checked')
            if len(got) != 1:
                rec.violate(forced_key or 'c02:extra_definition:' + p['tag'],
                            'only %s can reach the probe but infer reports %s'
                            % (obs[0][:3], sorted((g[0], g[1], g[3]) for g in got)), **w)
    return joined


def run(spec):
    from vf.driver import digest
    rec = apimon.Recorder()
    run_dir = os.environ.get('VERIF_RUN_DIR', '/var/tmp')
    joined = 0
    texts = []
    sample = None
    if 'witness' in spec:
        key, text, lines = WITNESSES[spec['witness']]
        case_dir = os.path.join(run_dir, 'c02-' + spec['id'])
        os.makedirs(case_dir, exist_ok=True)
        files = {'main.py': text}
        with open(os.path.join(case_dir, 'main.py'), 'w') as f:
            f.write(text)
        res = observe(case_dir, lines)
        if res is None or not res.get('ok'):
            return {'id': spec['id'], 'events': {}, 'violations': [],
                    'inconclusive': ['witness program did not run']}
        probes = [{'line': l, 'tag': 'witness', 'single': True} for l in lines]
        joined = join(rec, files, case_dir, probes, res, {'case': spec['id']}, forced_key=key)
        texts.append(text)
        sample = {'witness_of': key}
    else:
        rnd = random.Random(spec['seed'])
        for k in range(PER_CASE):
            b = vfl.Builder(rnd, multi_module=rnd.random() < 0.4)
            files = b.build(rnd.randint(6, 14))
            case_dir = os.path.join(run_dir, 'c02-%s-%d' % (spec['id'], k))
            os.makedirs(case_dir, exist_ok=True)
            for rel, text in files.items():
                with open(os.path.join(case_dir, rel), 'w') as f:
                    f.write(text)
            res = observe(case_dir, [p['line'] for p in b.probes])
            if res is None:
                rec.ev('c02:observer_failed')
                continue
            if not res.get('ok'):
                rec.ev('c02:programs_raising_partially_observed')
            rec.ev('c02:programs')
            j = join(rec, files, case_dir, b.probes, res, {'case': spec['id'], 'program': k})
            joined += j
            texts.append(files['main.py'])
            if sample is None and j:
                sample = {'case': spec['id'], 'modules': sorted(files), 'probes': len(b.probes),
                          'joined': j, 'tail': files['main.py'][-300:]}
    return {'id': spec['id'], 'digest': digest(texts),
            'violations': [v for v in rec.violations if v['key'].startswith('c02')],
            'events': {k: v for k, v in rec.events.items() if not k.startswith('call:')},
            'nontrivial': joined >= (1 if 'witness' in spec else 10), 'sample': sample}
