"""C04 — completions extend the typed fragment, are unique, ordered; attribute completeness.

Deciding monitors: (a) the completion algebra of vf.apimon on every completion list
(keys c04:*), (b) attribute completeness against vars()/__dict__ of the executed
program's objects (keys c04c:*, module vf.props.c04c, added when the program generator is
available)."""
import os
import random

import jedi

from vf import apimon, corpus, mutate, sweepwl
from vf.props import c01

ID = 'C04'
LEVEL = 'exploration'
DECIDING = ['c04:completions', 'c04c:receivers_checked']
RULE = ('cases = corpus texts (as C01: whole/window, 0-3 small edits, token soups) x N cursor '
        'positions biased to identifier ends, dots, brackets and import statements x {fuzzy, '
        'non-fuzzy}; every returned list is checked against the algebra of the statement '
        '(extension/subsequence, complete == name_with_symbols[n:], uniqueness of (name, '
        'complete), documented order, prefix length == identifier fragment found by the stdlib '
        'tokenizer). Plus generated executable programs for attribute completeness. '
        'Non-trivial: the case produced at least one non-empty completion list; distinct by '
        'text digest.')
ASSUMPTIONS = c01.ASSUMPTIONS + ['sort key transcribed from the documented order',
                                 'dict-key/file-name completions recognised by bracket/quote context']
SIZES = {'quick': (480, 24), 'thorough': (3000, 40)}
TIMEOUT = c01.TIMEOUT


def plan(tier, seed):
    n, npos = SIZES[tier]
    files = corpus.files()
    specs = []
    for i in range(n):
        rnd = random.Random('%s/C04/plan/%d' % (seed, i))
        specs.append({'id': 'c04-%d' % i, 'kind': 'soup' if rnd.random() < 0.04 else 'file',
                      'file_index': rnd.randrange(len(files)),
                      'nmut': rnd.choice([0, 0, 1, 1, 2, 3]), 'npos': npos,
                      'whole': rnd.random() < 0.3, 'seed': '%s/C04/%d' % (seed, i)})
    try:
        from vf.props import c04c
        specs += c04c.plan(tier, seed)
    except ImportError:
        pass
    return specs


def run(spec):
    if spec.get('kind') == 'program':
        from vf.props import c04c
        return c04c.run(spec)
    from vf.driver import digest
    text, near, rnd = c01.build_text(spec)
    rec = apimon.Recorder()
    case_dir = os.path.join(os.environ.get('VERIF_RUN_DIR', '/var/tmp'), 'cases')
    os.makedirs(case_dir, exist_ok=True)
    path = os.path.join(case_dir, spec['id'] + '.py')
    pos = mutate.positions(text, rnd, spec['npos'], near=near)
    ok, script = apimon.call(rec, 'Script', jedi.Script, text, path=path)
    nonempty = 0
    if ok:
        for (line, col) in pos:
            for fuzzy in (False, True):
                w = {'case': spec['id'], 'pos': [line, col], 'fuzzy': fuzzy}
                ok2, comps = apimon.call(rec, 'complete', script.complete, line, col,
                                         fuzzy=fuzzy, witness=w)
                if not ok2:
                    continue
                nonempty += bool(comps)
                frag = sweepwl.fragment_before(text, line, col)
                apimon.completion_algebra(rec, comps, text, line, col, fuzzy, w,
                                          expected_fragment=frag)
    vio = [v for v in rec.violations if v['key'].startswith('c04:')]
    for v in vio:
        v['witness']['text'] = text[:8000]
    return {'id': spec['id'], 'digest': digest(text), 'nontrivial': nonempty > 0,
            'events': {k: v for k, v in rec.events.items() if not k.startswith('call:')},
            'violations': vio,
            'sample': {'case': spec['id'], 'chars': len(text), 'positions': pos[:5],
                       'nonempty_lists': nonempty,
                       'completions_checked': rec.events.get('c04:completions', 0)}}
