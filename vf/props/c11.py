"""C11 — signatures and docstrings mirror the definition; index locates the argument.

Deciding monitor: join of get_signatures()/docstring() with inspect.signature / bind rules /
inspect.getdoc of the *executed* definition (the generated definition is exec'd in the
worker; it has no side effects)."""
import inspect
import itertools
import os
import random

import jedi

from vf import apimon

ID = 'C11'
LEVEL = 'exploration'
DECIDING = ['c11:index_cells', 'c11:paramlist_checked', 'c11:docstring_checked']
RULE = ('a case = one parameter-kind sequence (positional-only / positional-or-keyword / *args / '
        'keyword-only / **kwargs; all 85 sequences up to 4 parameters, sampled up to 6) with a '
        'default/annotation/docstring variant x one flavour (function, method via instance, '
        'classmethod, staticmethod, class __init__, functools.wraps pass-through wrapper). Inside '
        'the case every call prefix up to length L over {positional, known keyword, unknown '
        'keyword, *x, **x} x every cursor slot kind (empty, literal, `name=`, identifier prefix; at '
        'the end of an unterminated call and inside each slot of a closed call) is a cell: '
        'get_signatures must give exactly one signature whose params equal inspect.signature of '
        'the executed object, bracket_start the "(" and index the parameter Python binds the slot '
        'to (oracle of DESIGN.md C11). to_string() is re-parsed and compared; docstring(raw) is '
        'compared with inspect.getdoc. Non-trivial: >= 5 index cells decided; distinct by the '
        'definition text.')
ASSUMPTIONS = ['index oracle: an empty slot / identifier prefix admits the set stated in DESIGN.md C11',
               'cells with *x/**x before the cursor: only totality and range are checked',
               'CPython 3.12 inspect as ground truth']
TIMEOUT = {'quick': 1200, 'thorough': 4 * 3600}

PO, PK, VP, KO, VK = 'po', 'pk', 'vp', 'ko', 'vk'
KIND_OF = {PO: inspect.Parameter.POSITIONAL_ONLY, PK: inspect.Parameter.POSITIONAL_OR_KEYWORD,
           VP: inspect.Parameter.VAR_POSITIONAL, KO: inspect.Parameter.KEYWORD_ONLY,
           VK: inspect.Parameter.VAR_KEYWORD}
FLAVOURS = ['function', 'method', 'classmethod', 'staticmethod', 'init', 'wraps',
            'wraps_method', 'wraps_classmethod', 'plainwrap_method']
# wrappers that forward only *args or only **kwargs: decided by a table of calls, in turn
ONE_STAR_FLAVOURS = ['args_only', 'kwargs_only', 'args_only_wraps', 'kwargs_only_wraps']
NAMES = ['alpha', 'beta', 'gamma', 'delta', 'eps', 'zeta']
DOCS = [None, '"Build the target."', "'bisect helper'", '"""Buffer of bytes."""', '"Raw looking r text"', "'u is for unicode'",
        '"""One line."""', "'''Single quotes.'''", '"one-liner"',
        '"""First line.\n\n    Indented more\n      and more.\n    """',
        '"""\n    Starts on the second line.\n\n    Ends with blank lines.\n\n    """',
        'r"""Raw \\n backslash \\d."""', 'u"""Unicode prefix."""',
        '"""Tab\there and trailing spaces   \n    second\n"""']


def shapes(max_n):
    out = []
    for n in range(0, max_n + 1):
        for npo in range(n + 1):
            for npk in range(n - npo + 1):
                rest = n - npo - npk
                for has_vp in (0, 1):
                    for has_vk in (0, 1):
                        nko = rest - has_vp - has_vk
                        if nko < 0:
                            continue
                        out.append([PO] * npo + [PK] * npk + [VP] * has_vp + [KO] * nko
                                   + [VK] * has_vk)
    return out


def plan(tier, seed):
    specs = []
    max_exh = 3 if tier == 'quick' else 4
    sh = shapes(max_exh)
    i = 0
    for si, s in enumerate(sh):
        # the six basic flavours for every shape, the three wrapper-around-a-method ones in turn
        for fl in FLAVOURS[:6] + [FLAVOURS[6 + si % 3]] + [ONE_STAR_FLAVOURS[si % 4]]:
            rnd = random.Random('%s/C11/%d' % (seed, i))
            specs.append({'id': 'c11-%d' % i, 'shape': s, 'flavour': fl,
                          'plen': 2 if tier == 'quick' else 3,
                          'max_cells': 100 if tier == 'quick' else 900,
                          'variant': rnd.randrange(1 << 30), 'seed': '%s/C11/%d' % (seed, i)})
            i += 1
    # sampled larger shapes
    big = [s for s in shapes(6) if len(s) > max_exh]
    rnd = random.Random('%s/C11/big' % seed)
    for s in rnd.sample(big, 30 if tier == 'quick' else 300):
        specs.append({'id': 'c11-%d' % i, 'shape': s, 'flavour': rnd.choice(FLAVOURS),
                      'plen': 2 if tier == 'quick' else 4, 'max_cells': 120 if tier == 'quick' else 600,
                      'variant': rnd.randrange(1 << 30), 'seed': '%s/C11/%d' % (seed, i)})
        i += 1
    return specs


# ------------------------------------------------------------------ definition text

def render_params(shape, rnd, first=None):
    names = NAMES[:len(shape)]
    parts = [first] if first else []
    seen_default = False
    emitted_star = False
    po_open = False
    for k, nm in zip(shape, names):
        if k != PO and po_open:
            parts.append('/')
            po_open = False
        ann = rnd.choice(['', '', ': int', ': str', ": 'Later'"])
        dflt = ''
        if k in (PO, PK):
            if seen_default or rnd.random() < 0.35:
                dflt = rnd.choice(['1', "'x'", 'None', '(1, 2)', '-1', '1.5', '[]'])
                seen_default = True
        elif k == KO and rnd.random() < 0.5:
            dflt = rnd.choice(['2', "'y'", 'None'])
        if k == PO:
            po_open = True
        if k == VP:
            parts.append('*' + nm + ann)
            emitted_star = True
            continue
        if k == VK:
            parts.append('**' + nm + ann)
            continue
        if k == KO and not emitted_star:
            parts.append('*')
            emitted_star = True
        if dflt:
            parts.append(nm + ann + (' = ' if ann else '=') + dflt)
        else:
            parts.append(nm + ann)
    if po_open:
        parts.append('/')
    return ', '.join(parts), names


def build_definition(spec):
    rnd = random.Random(spec['variant'])
    fl = spec['flavour']
    first = {'method': 'self', 'classmethod': 'cls', 'init': 'self', 'wraps_method': 'self',
             'wraps_classmethod': 'cls', 'plainwrap_method': 'self'}.get(fl)
    params, names = render_params(spec['shape'], rnd, first)
    doc = rnd.choice(DOCS)
    ret = rnd.choice(['', '', ' -> int', ' -> None']) if fl != 'init' else ''
    body = (('    ' + doc.replace('\n', '\n') + '\n') if doc else '') + '    return None\n'
    lines = ['import functools\n', 'class Later: pass\n', '\n']
    if fl == 'function':
        lines.append('def target(%s)%s:\n%s' % (params, ret, body))
        call = 'target'
    elif fl == 'wraps':
        lines.append('def deco(fn):\n    @functools.wraps(fn)\n    def wrapper(*args, **kwargs):\n'
                     '        return fn(*args, **kwargs)\n    return wrapper\n\n')
        lines.append('@deco\ndef target(%s)%s:\n%s' % (params, ret, body))
        call = 'target'
    elif fl in ONE_STAR_FLAVOURS:
        star = '*args' if fl.startswith('args') else '**kwargs'
        wr = '    @functools.wraps(fn)\n' if fl.endswith('wraps') else ''
        lines.append('def deco(fn):\n%s    def wrapper(%s):\n        return fn(%s)\n    return wrapper\n\n'
                     % (wr, star, star))
        lines.append('@deco\ndef target(%s)%s:\n%s' % (params, ret, body))
        call = 'target'
    elif fl in ('wraps_method', 'wraps_classmethod', 'plainwrap_method'):
        # a pure pass-through wrapper around a method: Python binds self/cls through *args
        wr = '    @functools.wraps(fn)\n' if fl != 'plainwrap_method' else ''
        lines.append('def deco(fn):\n%s    def wrapper(*args, **kwargs):\n'
                     '        return fn(*args, **kwargs)\n    return wrapper\n\n' % wr)
        ibody = ''.join('    ' + l if l.strip() else l for l in body.splitlines(keepends=True))
        cm = '    @classmethod\n' if fl == 'wraps_classmethod' else ''
        lines.append('class Target:\n%s    @deco\n    def meth(%s)%s:\n%s' % (cm, params, ret, ibody))
        if fl == 'wraps_classmethod':
            call = 'Target.meth'
        else:
            lines.append('inst = Target()\n')
            call = 'inst.meth'
    else:
        deco = {'classmethod': '    @classmethod\n', 'staticmethod': '    @staticmethod\n'}.get(fl, '')
        mname = '__init__' if fl == 'init' else 'meth'
        ibody = ''.join('    ' + l if l.strip() else l for l in body.splitlines(keepends=True))
        cdoc = ''
        if fl == 'init':
            # the callable is the class: its docstring is the class docstring
            ibody = '        pass\n'
            cdoc = ('    ' + doc + '\n') if doc else ''
        lines.append('class Target:\n%s%s    def %s(%s)%s:\n%s' % (cdoc, deco, mname, params, ret, ibody))
        if fl == 'method':
            lines.append('inst = Target()\n')
        call = {'method': 'inst.meth', 'classmethod': 'Target.meth', 'staticmethod': 'Target.meth',
                'init': 'Target'}[fl]
    return ''.join(lines), call, names, doc


# ------------------------------------------------------------------ index oracle

def expected_index(params, before, slot):
    """params: list of (name, kind) as Python binds them (self removed).
    before: list of ('pos',) | ('kw', name) | ('star',) | ('dstar',) typed before the cursor slot.
    slot: ('empty',) | ('lit',) | ('kweq', name) | ('ident', prefix).
    Returns a set of acceptable indexes (None = binds to no parameter), or 'skip' when the
    prefix itself cannot bind, or 'unclaimed' when star arguments precede the cursor."""
    if any(a[0] in ('star', 'dstar') for a in before):
        return 'unclaimed'
    kws = [a[1] for a in before if a[0] == 'kw']
    npos = 0
    seen_kw = False
    for a in before:
        if a[0] == 'kw':
            seen_kw = True
        elif seen_kw:
            return 'skip'  # positional after keyword: not a call Python accepts
        else:
            npos += 1
    if len(set(kws)) != len(kws):
        return 'skip'
    pos_capable = [i for i, (n, k) in enumerate(params) if k in (PO, PK)]
    vp = next((i for i, (n, k) in enumerate(params) if k == VP), None)
    vk = next((i for i, (n, k) in enumerate(params) if k == VK), None)
    bound_by_pos = set(pos_capable[:npos])
    if npos > len(pos_capable) and vp is None:
        return 'skip'
    bound = set(bound_by_pos)
    for kname in kws:
        idx = next((i for i, (n, k) in enumerate(params) if n == kname and k in (PK, KO)), None)
        if idx is None:
            if vk is None:
                return 'skip'
        elif idx in bound:
            return 'skip'
        else:
            bound.add(idx)

    def positional_answer():
        if npos < len(pos_capable):
            return pos_capable[npos]
        return vp

    kw_capable_unbound = [i for i, (n, k) in enumerate(params) if k in (PK, KO) and i not in bound]
    kind = slot[0]
    if kind == 'lit':
        if seen_kw:
            return 'skip'
        return {positional_answer()}
    if kind == 'kweq':
        idx = next((i for i in kw_capable_unbound if params[i][0] == slot[1]), None)
        if idx is not None:
            return {idx}
        already = any(n == slot[1] for n, k in params)
        if already and vk is None:
            return 'skip'   # duplicate / positional-only by keyword: cannot bind
        if already:
            return 'skip'
        return {vk}
    if kind == 'empty':
        acc = set()
        if not seen_kw:
            a = positional_answer()
            acc.add(a)
            if a is None:
                acc.discard(None)
                acc |= set(kw_capable_unbound[:1])
                if vk is not None:
                    acc.add(vk)
        else:
            acc |= set(kw_capable_unbound[:1])
            if vk is not None:
                acc.add(vk)
        return acc or {None}
    if kind == 'ident':
        acc = set()
        if not seen_kw:
            a = positional_answer()
            if a is not None:
                acc.add(a)
        acc |= {i for i in kw_capable_unbound if params[i][0].startswith(slot[1])}
        if vk is not None:
            acc.add(vk)
        return acc or {None}
    raise AssertionError(slot)


def render_arg(a, serial):
    if a[0] == 'pos':
        return str(serial)
    if a[0] == 'kw':
        return '%s=%d' % (a[1], serial)
    if a[0] == 'star':
        return '*rest'
    return '**more'


def render_slot(slot):
    if slot[0] == 'empty':
        return ''
    if slot[0] == 'lit':
        return '7'
    if slot[0] == 'kweq':
        return slot[1] + '='
    return slot[1]


# ------------------------------------------------------------------ run

def run(spec):
    from vf.driver import digest
    rnd = random.Random(spec['seed'])
    rec = apimon.Recorder()
    src, call, names, doc = build_definition(spec)
    res = {'id': spec['id'], 'digest': digest(src), 'events': rec.events, 'violations': [],
           'nontrivial': False}
    ns = {}
    try:
        exec(compile(src, '<c11>', 'exec'), ns)
        obj = eval(call, ns)
        if spec['flavour'] == 'plainwrap_method':
            # the wrapper does not advertise what it wraps: the oracle is the wrapped method's
            # own signature with self bound (exactly the calls that run without TypeError)
            wrapped = [c.cell_contents for c in obj.__func__.__closure__ if callable(c.cell_contents)][0]
            real = inspect.signature(wrapped.__get__(ns['inst'], ns['Target']))
            spec = dict(spec, _def_obj=wrapped)
        else:
            real = inspect.signature(obj)
    except Exception as e:
        res['inconclusive'] = ['generated definition does not execute: %s' % type(e).__name__]
        res['harness_error'] = repr(e) + '\n' + src
        return res
    if spec['flavour'] in ONE_STAR_FLAVOURS:
        return _run_one_star(spec, rec, res, src, call, obj, names, ns)
    real_params = [(p.name, {v: k for k, v in KIND_OF.items()}[p.kind]) for p in real.parameters.values()]
    case_dir = os.path.join(os.environ.get('VERIF_RUN_DIR', '/var/tmp'), 'cases')
    os.makedirs(case_dir, exist_ok=True)
    w = {'case': spec['id'], 'flavour': spec['flavour'], 'definition': src, 'call': call}
    serial = [0]

    def query(text, line, col, tag):
        serial[0] += 1
        path = os.path.join(case_dir, '%s-%d.py' % (spec['id'], serial[0]))
        ok, script = apimon.call(rec, 'Script', jedi.Script, text, path=path, witness=w)
        if not ok:
            return None, None
        ok, sigs = apimon.call(rec, 'get_signatures', script.get_signatures, line, col,
                               witness=dict(w, text_tail=text[-120:], tag=tag))
        return (sigs if ok else None), script

    base_lines = src.count('\n')

    # ---- parameter list, to_string, bracket_start, docstrings: one query in an empty call
    text = src + call + '('
    sigs, script = query(text, base_lines + 1, len(call) + 1, 'paramlist')
    if sigs is not None:
        rec.ev('c11:signature_lists')
        if len(sigs) != 1:
            rec.violate('c11:signature_count', '%d signatures for %s (flavour %s)'
                        % (len(sigs), call, spec['flavour']), **w)
        for sig in sigs[:1]:
            rec.ev('c11:paramlist_checked')
            got = [(p.name, {v: k for k, v in KIND_OF.items()}[p.kind]) for p in sig.params]
            if got != real_params:
                rec.violate('c11:params', 'params %s, inspect.signature says %s' % (got, real_params), **w)
            if tuple(sig.bracket_start) != (base_lines + 1, len(call)):
                rec.violate('c11:bracket_start', 'bracket_start %s, "(" is at %s'
                            % (sig.bracket_start, (base_lines + 1, len(call))), **w)
            _check_to_string(rec, sig, real, ns, w)
            _check_docstrings(rec, sig, script, obj, spec, base_lines, call, w)

    # ---- index cells
    cells = list(_cells(real_params, spec['plen']))
    if len(cells) > spec['max_cells']:
        cells = rnd.sample(cells, spec['max_cells'])
    for before, slot, closed_tail in cells:
        exp = expected_index(real_params, before, slot)
        if exp == 'unclaimed' and rnd.random() > 0.12:
            continue  # star arguments before the cursor: only a thin sample (totality/range)
        if exp == 'skip':
            rec.ev('c11:cells_skipped_unbindable')
            continue
        args = [render_arg(a, i + 1) for i, a in enumerate(before)]
        head = call + '(' + ''.join(a + ', ' for a in args)
        cur = head + render_slot(slot)
        tail = ''
        if closed_tail:
            tail = ''.join(', ' + render_arg(a, 50 + i) for i, a in enumerate(closed_tail)) + ')'
            if slot[0] == 'kweq':
                cur += '8'  # `name=8, later)` keeps the closed call syntactically valid
        pre = ''
        if any(a[0] in ('star', 'dstar') for a in list(before) + list(closed_tail or [])):
            pre = 'rest = (1,)\nmore = {}\n'
        text = src + pre + cur + tail + '\n'
        line = base_lines + 1 + pre.count('\n')
        col = len(cur) - (1 if (closed_tail and slot[0] == 'kweq') else 0)
        sigs, _ = query(text, line, col, 'index')
        if sigs is None:
            continue
        if len(sigs) != 1:
            rec.violate('c11:signature_count', '%d signatures at %r' % (len(sigs), cur + '|' + tail),
                        cell=[before, slot], **w)
            continue
        sig = sigs[0]
        ww = dict(w, cell=[list(map(list, before)), list(slot)], call_text=cur + '|' + tail)
        if tuple(sig.bracket_start) != (line, len(call)):
            rec.violate('c11:bracket_start', 'bracket_start %s, "(" is at %s'
                        % (sig.bracket_start, (line, len(call))), **ww)
        ok, idx = apimon.call(rec, 'Signature.index', lambda: sig.index, witness=ww)
        if not ok:
            continue
        if exp == 'unclaimed':
            rec.ev('c11:index_cells_star_unclaimed')
            if idx is not None and not 0 <= idx < max(1, len(real_params)):
                rec.violate('c11:index_out_of_range', 'index %r with %d params' % (idx, len(real_params)), **ww)
            continue
        rec.ev('c11:index_cells')
        rec.ev('c11:index_slot_' + slot[0] + ('_closed' if closed_tail else ''))
        if idx not in exp:
            key = 'c11:index:' + slot[0]
            if slot[0] == 'lit' and exp == {None} and \
                    idx in (expected_index(real_params, before, ('empty',)) or ()):
                # listed finding: a literal typed where no positional parameter is left is
                # treated like an empty slot (first keyword candidate) instead of None
                key = 'c11:index:literal_treated_as_empty_slot'
            rec.violate(key, 'index %r at %r; Python would bind the slot to %s of %s'
                        % (idx, cur + '|' + tail, sorted(exp, key=str), real_params), **ww)
    res['violations'] = [v for v in rec.violations if v['key'].startswith('c11')]
    res['nontrivial'] = rec.events.get('c11:index_cells', 0) >= 5
    res['events'] = {k: v for k, v in rec.events.items() if not k.startswith('call:')}
    res['sample'] = {'case': spec['id'], 'flavour': spec['flavour'], 'shape': spec['shape'],
                     'signature': str(real), 'index_cells': rec.events.get('c11:index_cells', 0)}
    return res


def _run_one_star(spec, rec, res, src, call, obj, names, ns):
    """A wrapper that forwards only *args (or only **kwargs): the statement's criterion itself is
    the oracle - exactly the calls that bind against the reported signature run without
    TypeError - over a table of calls (0..n+1 positionals x keyword subsets incl. an unknown one)."""
    case_dir = os.path.join(os.environ.get('VERIF_RUN_DIR', '/var/tmp'), 'cases')
    os.makedirs(case_dir, exist_ok=True)
    w = {'case': spec['id'], 'flavour': spec['flavour'], 'definition': src, 'call': call}
    text = src + call + '('
    path = os.path.join(case_dir, '%s-1.py' % spec['id'])
    ok, script = apimon.call(rec, 'Script', jedi.Script, text, path=path, witness=w)
    if not ok:
        return res
    ok, sigs = apimon.call(rec, 'get_signatures', script.get_signatures, src.count('\n') + 1, len(call) + 1,
                           witness=w)
    if not ok:
        return res
    rec.ev('c11:signature_lists')
    if len(sigs) != 1:
        rec.violate('c11:signature_count', '%d signatures for %s (flavour %s)' % (len(sigs), call, spec['flavour']), **w)
        return _finish_one_star(spec, rec, res, 0)
    sig = sigs[0]
    try:
        reported = inspect.Signature([
            inspect.Parameter(p.name, p.kind, default=(0 if '=' in p.to_string() and p.kind not in (
                inspect.Parameter.VAR_POSITIONAL, inspect.Parameter.VAR_KEYWORD) else inspect.Parameter.empty))
            for p in sig.params])
    except ValueError as e:
        rec.violate('c11:reported_signature_malformed', 'the reported parameters %s do not form a signature: %s'
                    % ([(p.name, str(p.kind)) for p in sig.params], e), **w)
        return _finish_one_star(spec, rec, res, 0)
    kw_pool = [n for n in names][:4] + ['zz_unknown']
    n = len(names)
    compared = 0
    table = []
    for npos in range(0, n + 2):
        for r in range(0, 3):
            for kws in itertools.combinations(kw_pool, r):
                a = tuple(range(npos))
                k = {x: 1 for x in kws}
                try:
                    obj(*a, **k)
                    table.append((npos, kws, True))
                except TypeError:
                    table.append((npos, kws, False))
    if not any(t[2] for t in table):
        # the wrapped callable requires a parameter this wrapper cannot forward: no call runs at
        # all and no signature could say so; outside the statement's criterion
        rec.ev('c11:wrapper_never_callable_not_claimed')
        return _finish_one_star(spec, rec, res, 0)
    for npos, kws, runs in table:
        for _once in (1,):
            for _once2 in (1,):
                a = tuple(range(npos))
                k = {x: 1 for x in kws}
                try:
                    reported.bind(*a, **k)
                    binds = True
                except TypeError:
                    binds = False
                compared += 1
                rec.ev('c11:wrapper_calls_compared')
                if runs != binds:
                    rec.violate('c11:one_star_wrapper_calls', 'the call (%d positional, keywords %s) %s at run '
                                'time but %s against the reported signature %s'
                                % (npos, list(kws), 'runs' if runs else 'raises TypeError',
                                   'binds' if binds else 'does not bind', sig.to_string()), **w)
                    return _finish_one_star(spec, rec, res, compared)
    return _finish_one_star(spec, rec, res, compared)


def _finish_one_star(spec, rec, res, compared):
    res['violations'] = [v for v in rec.violations if v['key'].startswith('c11')]
    res['nontrivial'] = compared >= 5
    if not compared and not res['violations']:
        res['inconclusive'] = ['wrapper can never be called (a required parameter cannot be forwarded)']
    res['events'] = {k: v for k, v in rec.events.items() if not k.startswith('call:')}
    res['sample'] = {'case': spec['id'], 'flavour': spec['flavour'], 'shape': spec['shape'],
                     'wrapper_calls_compared': compared}
    return res


def _cells(params, plen):
    knames = [n for n, k in params if k in (PK, KO)][:3]
    alphabet = [('pos',)] + [('kw', n) for n in knames] + [('kw', 'unknown')] + [('star',), ('dstar',)]
    slots = [('empty',), ('lit',), ('ident', 'zz')] + [('kweq', n) for n in knames] + \
        [('kweq', 'unknown')] + [('ident', n[:2]) for n in knames[:2]]
    for L in range(0, plen + 1):
        for before in itertools.product(alphabet, repeat=L):
            for slot in slots:
                yield before, slot, None
            # closed calls with one or two later arguments, cursor in this earlier slot
            if L <= 1:
                for slot in (('lit',), ('kweq', knames[0]) if knames else ('lit',)):
                    yield before, slot, (('kw', 'unknown'),)
                    if slot[0] == 'lit':
                        yield before, slot, (('pos',),)


def _sig_shape(s):
    return [(p.name, p.kind, None if p.default is p.empty else repr(p.default),
             None if p.annotation is p.empty else (p.annotation if isinstance(p.annotation, str)
                                                   else getattr(p.annotation, '__name__', repr(p.annotation))))
            for p in s.parameters.values()]


def _check_to_string(rec, sig, real, ns, w):
    ok, s = apimon.call(rec, 'Signature.to_string', sig.to_string, witness=w)
    if not ok:
        return
    rec.ev('c11:to_string_checked')
    ns2 = dict(ns)
    try:
        head = s if s.startswith(('target', 'meth', 'Target', '__init__')) else s
        name = head.split('(', 1)[0]
        exec('def _reparsed(' + head.split('(', 1)[1] + ': pass', ns2)
        back = inspect.signature(ns2['_reparsed'])
    except Exception as e:
        rec.violate('c11:to_string_unparsable', 'to_string() %r does not re-parse: %r' % (s, e), **w)
        return
    if _sig_shape(back) != _sig_shape(real):
        rec.violate('c11:to_string_differs', 'to_string() %r re-parses to %s, executed definition '
                    'has %s' % (s, back, real), **w)


def _check_docstrings(rec, sig, script, obj, spec, base_lines, call, w):
    expected = inspect.getdoc(obj)
    ok, defs = apimon.call(rec, 'goto', script.goto, base_lines + 1, len(call) - 1,
                           follow_imports=True, witness=w)
    targets = []
    if ok:
        targets = [d for d in defs if d.type in ('function', 'class')]
    for d in targets[:1] + [sig]:
        ok, raw = apimon.call(rec, 'docstring', d.docstring, raw=True, witness=w)
        if not ok:
            continue
        # the def statement goto lands on created the wrapped function; the callable at the call
        # site is what the decorator returned
        expected = inspect.getdoc(spec['_def_obj'] if d is not sig and '_def_obj' in spec else obj)
        rec.ev('c11:docstring_checked')
        # listed finding: functools.wraps applied to a method - the name and docstring copied by
        # functools.wraps are lost once the method is bound (the wrapper's own are reported)
        lost = ''
        if spec['flavour'] in ('wraps_method', 'wraps_classmethod') and expected and d is sig:
            lost = ':functools_wraps_docstring_lost_on_bound_method'
        if raw != (expected or ''):
            rec.violate('c11:docstring_raw' + (lost if raw == '' else ''),
                        'docstring(raw=True) %r != inspect.getdoc %r'
                        % (raw, expected), on=type(d).__name__, **w)
        ok, full = apimon.call(rec, 'docstring', d.docstring, witness=w)
        if not ok:
            continue
        rec.ev('c11:docstring_form_checked')
        if expected:
            if not full.endswith('\n\n' + expected) and full != expected:
                rec.violate('c11:docstring_form' + (lost if raw == '' else ''),
                            'docstring() %r does not end with blank line + doc %r'
                            % (full, expected), on=type(d).__name__, **w)
                continue
            head = full[:-len(expected)].rstrip('\n')
        else:
            head = full
        if head:
            first = head.split('(', 1)[0]
            if first not in ('target', 'meth', 'Target', '__init__', 'wrapper'):
                rec.violate('c11:docstring_signature_line', 'signature line %r does not start with the '
                            'callable name' % head, on=type(d).__name__, **w)
