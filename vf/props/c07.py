"""C07 — refactoring results are self-consistent and touch nothing until applied.

Deciding monitors per refactoring request on a real temporary project: directory snapshot
before/after the request (nothing may change before apply()), a strict unified-diff applier
of our own plus patch(1) applied to the original files vs get_new_code(), agreement of
get_diff / get_changed_files / get_renames on the files touched, byte-level preservation
checks (line endings, final newline, comments; exact inverse for renames), the state of the
directory after apply(), and the exception contract (RefactoringError, or ValueError for an
out-of-range position, and nothing else)."""
import io
import os
import random
import re
import shutil
import subprocess
import tokenize

import jedi
import parso

from vf import apimon, refsel
from vf.gen import behaviour as beh
from vf.props import c05

ID = 'C07'
LEVEL = 'exploration'
DECIDING = ['c07:results_checked']
RULE = ('a case = one generated program (as C05/C06, with comments and blank lines added) re-encoded '
        'as LF / CRLF / CR / no final newline / CRLF without final newline / non-ASCII identifiers and '
        'comments / form feeds and other str.splitlines-only separators, written to a real directory; requests: rename of role-tagged identifiers, '
        'extract_variable / extract_function on ast expression ranges, inline of single-assignment '
        'variables, plus out-of-range positions; half of the results are inspected only, half applied. '
        'Non-trivial: >= 8 results checked; distinct by program text and encoding.')
ASSUMPTIONS = ['patch(1) (GNU patch --binary) and the harness\'s strict applier define "well-formed unified diff"',
               'CR-only files are checked with the own applier only (patch(1) splits on LF)']
SIZES = {'quick': (96, 24), 'thorough': (800, 60)}
TIMEOUT = {'quick': 1500, 'thorough': 6 * 3600}
FORMATS = ['lf', 'crlf', 'nofinal', 'crlf_nofinal', 'unicode', 'cr', 'formfeed', 'crlf']
FRESH = 'zq_fresh_name'


def plan(tier, seed):
    n, per = SIZES[tier]
    # every third case keeps ONE Script per file for all its inspect-only requests (an IDE offering
    # several refactorings on the same buffer); each such result must equal the one of a new Script
    return [{'id': 'c07-%d' % i, 'per': per, 'format': FORMATS[i % len(FORMATS)], 'shared': i % 3 == 1,
             'seed': '%s/C07/%d' % (seed, i)} for i in range(n)]


def decorate(text, rnd):
    """Add comments and blank lines (must be preserved byte for byte)."""
    out = []
    for l in text.split('\n'):
        if l and rnd.random() < 0.15:
            out.append(l + '  # trailing comment %d' % rnd.randint(0, 99))
        else:
            out.append(l)
        if l and not l.startswith(' ') and rnd.random() < 0.2:
            out.append('')
            out.append('# a comment line before the next statement')
        elif l.startswith('    ') and not l.lstrip().startswith(('else', 'elif', 'except', 'finally', '@')) \
                and l.rstrip().endswith((')', ']')) is False and rnd.random() < 0.08:
            ind = l[:len(l) - len(l.lstrip())]
            out.append(ind + '# an indented comment line')
    return '\n'.join(out)


def encode(files, fmt):
    out = {}
    for rel, t in files.items():
        if fmt == 'unicode':
            t = re.sub(r'\b(var|par|fn|cls|attr|meth)_', lambda m: m.group(1) + '_é', t)
            t = t.replace('# a comment line', '# ein Kommentar mit Ümlaut — and “quotes”')
        if fmt == 'formfeed':
            # ^L section separators (a line of its own in front of top-level definitions, and inside
            # comments): a line break for str.splitlines(), not for Python, parso or diff tools
            out_l = []
            for l in t.split('\n'):
                if l.startswith(('def ', 'class ')) and out_l:
                    out_l.append('\x0c')
                out_l.append(l.replace('# a comment line', '# a comment \x0c with a form feed and \x1c more'))
            t = '\n'.join(out_l)
        if fmt in ('crlf', 'crlf_nofinal'):
            t = t.replace('\n', '\r\n')
        if fmt == 'cr':
            t = t.replace('\n', '\r')
        if fmt in ('nofinal', 'crlf_nofinal'):
            t = t.rstrip('\r\n')
        out[rel] = t
    return out


def snapshot(root):
    out = {}
    for d, dirs, fs in os.walk(root):
        dirs[:] = [x for x in dirs if x not in ('__pycache__',)]
        for f in fs:
            p = os.path.join(d, f)
            st = os.stat(p)
            with open(p, 'rb') as fh:
                out[os.path.relpath(p, root)] = (fh.read(), st.st_mtime_ns)
    return out


class DiffError(Exception):
    pass


PHANTOM = []
NOFINAL = 'c07:diff:no_final_newline_hunk_reaches_last_line'


def apply_diff(diff_text, originals):
    """Strict unified-diff applier. originals: {relpath: text}. Returns ({relpath(to): new text},
    [(from, to) renames], [from paths touched])."""
    lines = parso.split_lines(diff_text, keepends=True)
    i = 0
    renames = []
    results = {}
    touched = []
    while i < len(lines):
        l = lines[i]
        if l == '':
            i += 1
            continue
        if l.startswith('rename from '):
            a = l[len('rename from '):].rstrip('\n')
            if i + 1 >= len(lines) or not lines[i + 1].startswith('rename to '):
                raise DiffError('rename from without rename to')
            b = lines[i + 1][len('rename to '):].rstrip('\n')
            renames.append((a, b))
            i += 2
            continue
        if not l.startswith('--- '):
            raise DiffError('expected file header, got %r' % l[:40])
        frm = l[4:].rstrip('\n')
        if i + 1 >= len(lines) or not lines[i + 1].startswith('+++ '):
            raise DiffError('missing +++ header')
        to = lines[i + 1][4:].rstrip('\n')
        i += 2
        if frm not in originals:
            raise DiffError('diff names unknown file %r' % frm)
        old = parso.split_lines(originals[frm], keepends=True)
        if old and old[-1] == '':
            old.pop()
        new = []
        pos = 0
        while i < len(lines) and lines[i].startswith('@@'):
            m = re.match(r'@@ -(\d+)(?:,(\d+))? \+(\d+)(?:,(\d+))? @@', lines[i])
            if not m:
                raise DiffError('bad hunk header %r' % lines[i])
            a_start, a_len = int(m.group(1)), int(m.group(2) or 1)
            b_len = int(m.group(4) or 1)
            i += 1
            start = a_start - 1 if a_len else a_start
            if start < pos:
                raise DiffError('overlapping hunks')
            new += old[pos:start]
            pos = start
            seen_a = seen_b = 0
            while seen_a < a_len or seen_b < b_len:
                if i >= len(lines) or lines[i] == '' or lines[i].startswith(('--- ', '@@')):
                    if pos == len(old) and a_len - seen_a == 1 and b_len - seen_b == 1:
                        # listed finding: a hunk that reaches the end of a file ending in a newline
                        # counts a phantom empty last line in its header (and the line itself is
                        # stripped from the output)
                        PHANTOM.append(frm)
                        break
                    raise DiffError('hunk shorter than its header says')
                tag, body = lines[i][0], lines[i][1:]
                if tag in (' ', '-'):
                    if pos >= len(old) or old[pos] != body:
                        raise DiffError('hunk line %r does not match the file line %r'
                                        % (body, old[pos] if pos < len(old) else None))
                    pos += 1
                    seen_a += 1
                    if tag == ' ':
                        new.append(body)
                        seen_b += 1
                elif tag == '+':
                    new.append(body)
                    seen_b += 1
                elif tag == '\\':
                    pass
                else:
                    raise DiffError('bad hunk line %r' % lines[i][:30])
                i += 1
        new += old[pos:]
        results[to] = ''.join(new)
        touched.append(frm)
    return results, renames, touched


def comments_of(text):
    try:
        return sorted(t.string for t in tokenize.generate_tokens(io.StringIO(text, newline=None).readline)
                      if t.type == tokenize.COMMENT)
    except Exception:
        return None


def unchanged_lines_with_changed_endings(old, new):
    """Lines that were rewritten *only in their line ending*: in a replace block of the line diff
    between old and new text, an old non-blank line whose content re-appears in the same block
    with another ending (and not with its own).  Inserted copies elsewhere do not count."""
    import difflib
    ol = parso.split_lines(old, keepends=True)
    nl = parso.split_lines(new, keepends=True)

    def split(l):
        body = l.rstrip('\r\n')
        return body, l[len(body):]
    out = []
    sm = difflib.SequenceMatcher(None, ol, nl, autojunk=False)
    for tag, i1, i2, j1, j2 in sm.get_opcodes():
        if tag != 'replace':
            continue
        news = [split(x) for x in nl[j1:j2]]
        for x in ol[i1:i2]:
            b, e = split(x)
            if b.strip() and e and (b, e) not in news and any(nb == b and ne for nb, ne in news):
                out.append((b[-30:], e, [ne for nb, ne in news if nb == b]))
    return out


def line_endings(text):
    s = set()
    for l in parso.split_lines(text, keepends=True):
        if l.endswith('\r\n'):
            s.add('CRLF')
        elif l.endswith('\n'):
            s.add('LF')
        elif l.endswith('\r'):
            s.add('CR')
    return s


def run(spec):
    from vf.driver import digest
    rnd = random.Random(spec['seed'])
    rec = apimon.Recorder()
    run_dir = os.environ.get('VERIF_RUN_DIR', '/var/tmp')
    base = os.path.join(run_dir, 'c07-' + spec['id'])
    fmt = spec['format']
    files = beh.generate(rnd, multi=rnd.random() < 0.5, in_function=rnd.random() < 0.5)
    files = {rel: decorate(t, rnd) if rel == 'main.py' else t for rel, t in files.items()}
    files = encode(files, fmt)
    res = {'id': spec['id'], 'digest': digest([files, fmt]), 'events': rec.events, 'violations': [],
           'nontrivial': False}
    # ---- build the request list on the text
    text = files['main.py']
    norm = text.replace('\r\n', '\n').replace('\r', '\n')
    requests = []
    try:
        exprs, stmts, inlines = refsel.analyse(norm)
    except SyntaxError:
        res['inconclusive'] = ['generated program does not parse']
        return res
    for rel, t in files.items():
        try:
            toks = c05.name_tokens(t.replace('\r\n', '\n').replace('\r', '\n'))
        except Exception:
            continue
        for (l, c, s) in toks:
            if beh.role_of(s) and beh.role_of(s) not in beh.LISTED_ROLES:
                requests.append(('rename', rel, (l, c), {'new_name': FRESH}, s))
    rnd.shuffle(requests)
    requests = requests[:spec['per'] // 2]
    ex = []
    for e in exprs:
        if e['flags'].get('pure') and not e['flags'].get('contains_comprehension') \
                and not e['flags'].get('contains_lambda'):
            kw = {'new_name': 'zq_new', 'until_line': e['end'][0], 'until_column': e['end'][1]}
            ex.append(('extract_variable', 'main.py', e['start'], kw, e['code'][:40]))
            if not e['flags'].get('contains_keyword_argument') and not e['flags'].get('uses_local_def'):
                ex.append(('extract_function', 'main.py', e['start'], kw, e['code'][:40]))
    for i_ in inlines:
        ex.append(('inline', 'main.py', i_['pos'], {}, i_['name']))
    rnd.shuffle(ex)
    requests += ex[:spec['per'] // 2]
    nl = norm.count('\n') + 1
    requests += [('rename', 'main.py', (nl + 3, 0), {'new_name': FRESH}, '<out of range>'),
                 ('extract_variable', 'main.py', (1, 9999), {'new_name': 'zq_new'}, '<out of range>'),
                 ('inline', 'main.py', (0, 0), {}, '<out of range>')]
    checked = 0
    shared_scripts = {}
    shared_root = os.path.join(base, 'shared')
    for k, (refac, rel, (line, col), kwargs, what) in enumerate(requests):
        use_shared = bool(spec.get('shared')) and k % 2 == 1
        root = shared_root if use_shared else os.path.join(base, 'p%d' % k)
        if not (use_shared and os.path.isdir(root)):
            c05.write_tree(root, files)
        S0 = snapshot(root)
        w = {'case': spec['id'], 'format': fmt, 'refactoring': refac, 'file': rel, 'pos': [line, col],
             'what': what, 'files': files, 'script_shared_with_earlier_requests': use_shared}
        path = os.path.join(root, rel)
        if use_shared and rel in shared_scripts:
            ok, s = True, shared_scripts[rel]
            rec.ev('c07:requests_on_a_script_used_before')
        else:
            project = jedi.Project(root)
            ok, s = apimon.call(rec, 'Script', jedi.Script, files[rel], path=path, project=project, witness=w)
            if ok and use_shared:
                shared_scripts[rel] = s
        if not ok:
            if not use_shared:
                shutil.rmtree(root, ignore_errors=True)
            continue
        out_of_range = what == '<out of range>'
        # ---- exception contract
        try:
            ref = getattr(s, refac)(line, col, **kwargs)
            if out_of_range:
                rec.violate('c07:out_of_range_accepted', '%s accepted the out-of-range position %s'
                            % (refac, (line, col)), **w)
        except jedi.RefactoringError:
            rec.ev('c07:refused')
            ref = None
            if out_of_range:
                rec.ev('c07:out_of_range_refused_with_RefactoringError')
        except ValueError as e:
            ref = None
            if out_of_range:
                rec.ev('c07:out_of_range_valueerror')
            else:
                rec.violate(apimon.exc_key(e, refac), 'ValueError for an in-range %s request: %s'
                            % (refac, e), **w)
        except Exception as e:
            ref = None
            rec.violate('c07:' + apimon.exc_key(e, refac), '%s raised %s: %s (only RefactoringError / '
                        'ValueError for bad positions are allowed)' % (refac, type(e).__name__, str(e)[:200]),
                        trace=apimon._short_tb(e), **w)
        s = None
        cleanup = (lambda d: None) if use_shared else (lambda d: shutil.rmtree(d, ignore_errors=True))
        S1 = snapshot(root)
        rec.ev('c07:requests')
        if S1 != S0:
            rec.violate('c07:changed_before_apply', 'the project directory changed before apply(): %s'
                        % sorted(set(S0) ^ set(S1) or [f for f in S0 if S0[f] != S1.get(f)])[:4], **w)
        if ref is None:
            cleanup(root)
            continue
        checked += 1
        rec.ev('c07:results_checked')
        rec.ev('c07:format_' + fmt)
        try:
            changed = ref.get_changed_files()
            renames = [(os.path.relpath(str(a), root), os.path.relpath(str(b), root))
                       for a, b in ref.get_renames()]
            diff = ref.get_diff()
            new_code = {os.path.relpath(str(p), root): cf.get_new_code() for p, cf in changed.items()}
        except Exception as e:
            rec.violate('c07:' + apimon.exc_key(e, 'result'), 'inspecting the result raised %s: %s'
                        % (type(e).__name__, str(e)[:200]), trace=apimon._short_tb(e), **w)
            cleanup(root)
            continue
        S2 = snapshot(root)
        if S2 != S0:
            rec.violate('c07:changed_before_apply', 'inspecting the result changed the directory', **w)
        if use_shared:
            # the same request on a new Script over a new copy of the project must announce the same
            froot = os.path.join(base, 'fresh%d' % k)
            c05.write_tree(froot, files)
            try:
                fs = jedi.Script(files[rel], path=os.path.join(froot, rel), project=jedi.Project(froot))
                fref = getattr(fs, refac)(line, col, **kwargs)
                fcode = {os.path.relpath(str(p), froot): cf.get_new_code()
                         for p, cf in fref.get_changed_files().items()}
                fren = sorted((os.path.relpath(str(a), froot), os.path.relpath(str(b), froot))
                              for a, b in fref.get_renames())
                rec.ev('c07:shared_script_results_compared')
                if fcode != new_code or fren != sorted(renames):
                    bad = sorted(set(fcode) ^ set(new_code)) or [r for r in fcode if fcode[r] != new_code[r]]
                    rec.violate('c07:result_depends_on_earlier_requests_of_the_script', '%s at %s on a Script '
                                'that answered other refactoring requests before announces other contents '
                                'than on a new Script (files %s)' % (refac, (line, col), bad[:3]),
                                shared=new_code.get(bad[0], '')[:1500] if bad else '',
                                fresh=fcode.get(bad[0], '')[:1500] if bad else '', **w)
            except Exception as e:
                rec.ev('c07:fresh_script_comparison_failed:' + type(e).__name__)
            fs = fref = None
            shutil.rmtree(froot, ignore_errors=True)
        # ---- diff vs get_new_code, via the strict applier
        nofinal_last_line = any(files[r] and not files[r].endswith(('\n', '\r')) and
                                parso.split_lines(files[r])[-1] != parso.split_lines(new_code[r])[-1]
                                for r in new_code if r in files)
        del PHANTOM[:]
        try:
            applied, d_renames, touched = apply_diff(diff, files)
            if PHANTOM:
                rec.violate('c07:diff_hunk_at_end_of_file_counts_a_phantom_line', 'the hunk header of the '
                            'last hunk of %s counts one line more than the hunk has (the file ends with '
                            'a newline and the hunk reaches its end)' % sorted(set(PHANTOM)),
                            diff=diff[-600:], **w)
            rec.ev('c07:diffs_applied')
            if sorted(touched) != sorted(new_code):
                rec.violate('c07:files_disagree', 'get_diff touches %s, get_changed_files lists %s'
                            % (sorted(touched), sorted(new_code)), **w)
            if sorted(d_renames) != sorted(renames):
                rec.violate('c07:renames_disagree', 'get_diff announces renames %s, get_renames %s'
                            % (d_renames, renames), **w)
            for r, ntext in new_code.items():
                to = c05.map_path(r, renames)
                if to not in applied:
                    rec.violate('c07:diff_target_path_differs_from_renames', 'get_renames() moves %s to %s '
                                'but the diff names %s as its target' % (r, to, sorted(applied)), **w)
                got = applied.get(to, applied.get(r))
                if got != ntext:
                    rec.violate(NOFINAL if (got or '').rstrip('\r\n') == ntext.rstrip('\r\n')
                                and not files[r].endswith(('\n', '\r')) else 'c07:diff_result_differs',
                                'applying get_diff() to %s does not give get_new_code()' % r,
                                applied=(got or '')[-200:], expected=ntext[-200:], **w)
        except DiffError as e:
            rec.violate(NOFINAL if any(not files[r_].endswith(('\n', '\r')) for r_ in new_code if r_ in files)
                        else 'c07:diff_not_applicable', 'get_diff() cannot be applied to the original '
                        'files: %s' % e, diff=diff[:1500], **w)
        # ---- patch(1) on LF/CRLF files
        if fmt not in ('cr',) and not renames:
            pdir = os.path.join(base, 'patch%d' % k)
            c05.write_tree(pdir, files)
            r = subprocess.run(['patch', '-p0', '--binary', '--no-backup-if-mismatch', '-s'], cwd=pdir,
                               input=diff.encode('utf-8'), capture_output=True)
            rec.ev('c07:patch_runs')
            bad = None
            if r.returncode != 0:
                bad = 'patch(1) rejects the diff: %s' % (r.stdout + r.stderr).decode('utf-8', 'replace')[:200]
            else:
                for rr, ntext in new_code.items():
                    with open(os.path.join(pdir, rr), newline='', encoding='utf-8') as fh:
                        if fh.read() != ntext:
                            bad = 'patch(1) result of %s differs from get_new_code()' % rr
            if bad:
                nf = any(not files[rr].endswith(('\n', '\r')) for rr in new_code if rr in files)
                key = 'c07:patch'
                if PHANTOM:
                    key = 'c07:diff_hunk_at_end_of_file_counts_a_phantom_line'
                elif nf:
                    key = NOFINAL
                rec.violate(key, bad, diff=diff[:1500], **w)
            shutil.rmtree(pdir, ignore_errors=True)
        # ---- byte preservation
        for r, ntext in new_code.items():
            otext = files.get(r)
            if otext is None:
                continue
            rec.ev('c07:preservation_checks')
            if not line_endings(ntext) <= (line_endings(otext) or {'LF'}):
                # inserted lines use LF in a CRLF/CR file: the statement protects text *outside* the
                # rewritten nodes (checked through the diff context lines); recorded only
                rec.ev('c07:inserted_lines_use_other_line_ending_recorded')
            if otext.endswith(('\n', '\r')) != ntext.endswith(('\n', '\r')):
                rec.violate('c07:final_newline_changed', '%s: final newline presence changed' % r, **w)
            bad_end = unchanged_lines_with_changed_endings(otext, ntext)
            if bad_end:
                rec.violate('c07:line_ending_of_untouched_line_changed', '%s: lines that the refactoring '
                            'did not rewrite changed their line ending: %s' % (r, bad_end[:3]), **w)
            co, cn = comments_of(otext), comments_of(ntext)
            if co is not None and cn is not None and co != cn:
                rec.violate('c07:comments_changed', '%s: comments differ: %s'
                            % (r, sorted(set(co) ^ set(cn))[:3]), **w)
            if refac == 'rename' and ntext.replace(FRESH, what) != otext:
                rec.violate('c07:bytes_outside_rewritten_tokens_changed', '%s: undoing the rename textually '
                            'does not give the original text' % r, **w)
        # ---- apply on half of the results
        if k % 2 == 0:
            try:
                ref.apply()
            except Exception as e:
                rec.violate('c07:' + apimon.exc_key(e, 'apply'), 'apply() raised %s: %s'
                            % (type(e).__name__, str(e)[:200]), trace=apimon._short_tb(e), **w)
                cleanup(root)
                continue
            rec.ev('c07:applied')
            S3 = snapshot(root)
            expect = {}
            for r, (data, _) in S0.items():
                if r.startswith('.jedi'):
                    continue
                to = c05.map_path(r, renames)
                expect[to] = new_code[r].encode('utf-8') if r in new_code else data
            got = {r: v[0] for r, v in S3.items() if not r.startswith('.jedi')}
            if got != expect:
                diffs = sorted(set(got) ^ set(expect)) or [r for r in got if got[r] != expect.get(r)]
                rec.violate('c07:apply_result', 'after apply() the directory differs from the announced '
                            'contents/names: %s' % diffs[:4], **w)
        cleanup(root)
    shutil.rmtree(base, ignore_errors=True)
    res['violations'] = [v for v in rec.violations if v['key'].startswith(('c07', 'exc:'))]
    res['events'] = {k: v for k, v in rec.events.items() if not k.startswith('call:')}
    res['nontrivial'] = checked >= 8
    res['sample'] = {'case': spec['id'], 'format': fmt, 'modules': sorted(files), 'results_checked': checked,
                     'requests': len(requests)}
    return res
