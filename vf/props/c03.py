"""C03 — name resolution follows Python's scoping rules.

Deciding monitor: for every executed use of an identifier, goto() is joined with the scope
Python really took the value from: every bound value is a unique object V(site), so the value
observed at the use names the binding site, whose owning scope (after global/nonlocal) the
generator knows; builtins are recognised by the type of the observed value."""
import collections
import contextlib
import io
import os
import random

import jedi

from vf import apimon
from vf.gen import scopes

ID = 'C03'
LEVEL = 'exploration'
DECIDING = ['c03:landings_checked']
RULE = ('programs rendered from trees of ops (bind by assignment / for / with / walrus / import / '
        'except-as / parameter / comprehension target; use; def with optional parameter and '
        'global/nonlocal declaration; class; lambda; comprehension) over identifiers a, b and the '
        'builtin len; every bound value is a unique V(site). small cases: all shapes of nesting '
        'depth <= 2 (module binding x def/class with its binding pattern x inner def/class/lambda/'
        'comprehension with its pattern), enumerated (thorough: all, exhaustive; quick: every 3rd); '
        'class chains: 2-3 directly nested classes (optionally in a function) x which class bodies bind '
        'the name x innermost def / lambda / comprehension / parameter default / plain use, enumerated '
        '(quick: every 3rd); random cases: trees to depth 4. The program is executed; for each use whose read succeeded, '
        'goto() must return only definitions spelled like the use that belong to the scope owning '
        'the site whose value was read (a global/nonlocal declaration of the owning chain is an '
        'accepted landing); in straight-line single-scope code exactly that assignment. '
        'Non-trivial: >= 1 executed use joined; distinct by program text.')
ASSUMPTIONS = ['ownership of a binding site follows the generator\'s bookkeeping of global/nonlocal, '
               'validated by the executed program (a read that names a site the model says is '
               'invisible makes the case inconclusive)',
               'exec/eval-created scopes and locals() tricks are not generated']
TIMEOUT = {'quick': 1200, 'thorough': 4 * 3600}
BATCH = 12


def plan(tier, seed):
    shapes = list(scopes.small_shapes())
    idx = list(range(len(shapes)))
    if tier == 'quick':
        idx = idx[seed % 3::3]
    specs = []
    for b in range(0, len(idx), BATCH):
        specs.append({'id': 'c03s-%d' % (b // BATCH), 'mode': 'small', 'indexes': idx[b:b + BATCH]})
    chains = list(scopes.class_chain_shapes())
    cidx = list(range(len(chains)))
    if tier == 'quick':
        cidx = cidx[seed % 3::3]
    for b in range(0, len(cidx), BATCH):
        specs.append({'id': 'c03c-%d' % (b // BATCH), 'mode': 'chain', 'indexes': cidx[b:b + BATCH]})
    # witnesses of the listed findings M1..M9, so that each is reported while it still fails
    specs.append({'id': 'c03w', 'mode': 'witness'})
    n_random = 400 if tier == 'quick' else 6000
    for b in range(0, n_random, BATCH):
        specs.append({'id': 'c03r-%d' % (b // BATCH), 'mode': 'random',
                      'seeds': ['%s/C03/%d' % (seed, i) for i in range(b, b + BATCH)]})
    return specs


def execute(src):
    OBS = []
    try:
        with contextlib.redirect_stdout(io.StringIO()):
            exec(compile(src, 'm.py', 'exec'), {'OBS': OBS, '__name__': '__main__'})
    except BaseException as e:
        return None, type(e).__name__
    return OBS, None


def tag_mechanism(prog, uscope, ident, got_owner, landing=None, use_line=None):
    """Mechanism tags of the listed findings (DESIGN.md C03, M1..M6)."""
    root = prog.root
    if got_owner is None:
        return None
    if landing is not None:
        for v in prog.sites.values():
            if v['how'] == 'except' and v['ident'] == ident and v['scope'] is got_owner \
                    and landing[0] <= v['line'] < use_line:
                # Python unbinds the `except ... as name` target when the handler ends
                return 'M6_except_target_treated_as_bound_after_its_handler'
    anc = uscope.chain()[1:]
    if uscope.kind == 'class' and got_owner.kind == 'class' and got_owner in anc:
        return 'M1_class_body_sees_enclosing_class'
    if uscope.kind == 'class' and ident in uscope.binds and got_owner.kind in ('def',) and got_owner in anc:
        return 'M2_class_local_unbound_resolved_in_enclosing_function'
    # nearest function-like scope of the use
    for sc in uscope.chain():
        if sc.decl.get(ident) == 'global' and got_owner.kind == 'def' and got_owner in sc.chain()[1:]:
            return 'M3_global_declaration_ignored_under_enclosing_binding'
        if sc.kind in ('def', 'lambda', 'comp') and ident in sc.binds and sc.decl.get(ident) is None:
            break
    if uscope.kind in ('comp', 'lambda') and uscope.parent.kind == 'class' and got_owner is uscope.parent:
        return 'M4_comprehension_or_lambda_in_class_body_sees_class_scope'
    if uscope.kind in ('comp', 'lambda') and uscope.parent.kind == 'class' and got_owner.kind == 'class' \
            and got_owner in uscope.parent.chain()[1:]:
        # M4 and M1 composed: the comprehension is resolved like the body of the class it is
        # written in, and that class body sees the enclosing class
        return 'M10_comprehension_in_nested_class_sees_outer_class_scope'
    if uscope.kind in ('def', 'lambda', 'comp') and got_owner.kind == 'class' and got_owner in anc:
        return 'M5_function_body_sees_enclosing_class_scope'
    return None


def check_program(rec, prog, tag, path):
    src = prog.source()
    obs, err = execute(src)
    if obs is None:
        rec.ev('c03:programs_rejected_' + err)
        return 0
    rec.ev('c03:programs_run')
    ok, s = apimon.call(rec, 'Script', jedi.Script, src, path=path)
    if not ok:
        return 0
    root = prog.root
    bypos = {(v['line'], v['col']): (k, v) for k, v in prog.sites.items()}
    declpos = {(d[0], d[1]): d for d in prog.decl_pos}
    mod_site = {v['module']: k for k, v in prog.sites.items() if v['module']}
    byuse = collections.defaultdict(set)
    for k, site, tname, nm in obs:
        if site is None and tname == 'module' and nm in mod_site:
            site = mod_site[nm]
        elif site is None and tname == 'builtin_function_or_method':
            site = 'builtin'
        byuse[k].add(site)
    joined = 0
    for k, sites in byuse.items():
        ln, col, ident, uscope = prog.uses[k][:4]
        use_tag = prog.uses[k][4] if len(prog.uses[k]) > 4 else None
        w = {'program': tag, 'use': [ln, col, ident], 'use_scope': uscope.kind, 'text': src}
        ok, defs = apimon.call(rec, 'goto', s.goto, ln, col, witness=w)
        if not ok:
            continue
        if None in sites:
            rec.ev('c03:uses_with_unidentified_value')
            continue
        joined += 1
        rec.ev('c03:uses_joined')
        want_owners = set()
        for site in sites:
            if site == 'builtin':
                want_owners.add('builtins')
            else:
                v = prog.sites[site]
                want_owners.add(scopes.owner(v['scope'], v['ident'], root))
        via_nonlocal = any(site != 'builtin' and prog.sites[site]['scope'].decl.get(ident) == 'nonlocal'
                           for site in sites)
        m9 = bool(use_tag and use_tag.endswith('_default') and uscope.kind == 'class')
        if not defs:
            rec.violate('c03:M7_nonlocal_write_from_nested_function_not_seen' if via_nonlocal else
                        'c03:M9_parameter_default_in_class_body_not_resolved_in_class_scope' if m9 else
                        'c03:no_landing', 'goto on executed use %r at %s:%s returns nothing'
                        % (ident, ln, col), **w)
            continue
        landed = []
        for d in defs:
            rec.ev('c03:landings_checked')
            if d.name != ident:
                rec.violate('c03:wrong_spelling', 'goto on %r lands on %r' % (ident, d.name), **w)
                continue
            if d.module_path is None or str(d.module_path) != path:
                if str(d.module_path).endswith('builtins.pyi') or d.in_builtin_module():
                    got_owner = 'builtins'
                else:
                    rec.violate('c03:landed_outside', 'goto on %r lands in %s' % (ident, d.module_path), **w)
                    continue
            else:
                pos = (d.line, d.column)
                if pos in bypos:
                    v = bypos[pos][1]
                    got_owner = scopes.owner(v['scope'], v['ident'], root)
                elif pos in declpos:
                    dd = declpos[pos]
                    got_owner = scopes.owner(dd[3], dd[2], root)
                    rec.ev('c03:landed_on_declaration')
                else:
                    rec.violate('c03:landing_not_a_binding', 'goto on %r at %s:%s lands at %s, which is '
                                'no binding of it' % (ident, ln, col, pos), **w)
                    continue
            landed.append((d.line, d.column))
            if got_owner not in want_owners and want_owners == {'builtins'} and got_owner is root \
                    and any(sc.kind in ('def', 'lambda', 'comp') for sc in uscope.chain()) \
                    and ident in root.binds:
                # a function read a global name before the module bound it (so the builtin was
                # taken); the module binding is in a scope Python consults and which binding is
                # live depends on when the function is called: accepted, counted
                rec.ev('c03:global_bound_after_the_call_accepted')
                continue
            if got_owner not in want_owners:
                mech = tag_mechanism(prog, uscope, ident, got_owner if got_owner != 'builtins' else None,
                                     (d.line, d.column), ln)
                desc = 'use in %s scope at %s:%s read the value bound in %s scope(s) but goto lands in ' \
                       '%s scope at %s' % (uscope.kind, ln, col,
                                           sorted(getattr(o, 'kind', o) for o in want_owners),
                                           getattr(got_owner, 'kind', got_owner), (d.line, d.column))
                if mech is None and use_tag == 'lambda_default' and got_owner is uscope and d.line > ln:
                    rec.violate('c03:M8_lambda_default_resolved_without_position_limit', desc, **w)
                    continue
                if mech is None and m9 and got_owner is not uscope:
                    rec.violate('c03:M9_parameter_default_in_class_body_not_resolved_in_class_scope', desc, **w)
                    continue
                if mech is None and via_nonlocal:
                    mech = 'M7_nonlocal_write_from_nested_function_not_seen'
                    rec.violate('c03:' + mech, desc, **w)
                    continue
                rec.violate('c03:wrong_scope:' + mech if mech else 'c03:wrong_scope', desc, **w)
        # straight-line single-scope clause
        if len(sites) == 1:
            site = next(iter(sites))
            if site != 'builtin':
                v = prog.sites[site]
                foreign = any(scopes.owner(dd[3], dd[2], root) is uscope and dd[2] == ident
                              for dd in prog.decl_pos) or \
                    any(o['ident'] == ident and o['scope'] is not uscope
                        and scopes.owner(o['scope'], ident, root) is uscope for o in prog.sites.values())
                if v['scope'] is uscope and uscope.kind in ('module', 'def') and not uscope.decl.get(ident) \
                        and v['how'] in ('assign', 'for', 'with', 'walrus', 'import') and not foreign:
                    rec.ev('c03:straight_line_exact_checked')
                    if landed and set(landed) != {(v['line'], v['col'])}:
                        rec.violate('c03:M8_lambda_default_resolved_without_position_limit'
                                    if use_tag == 'lambda_default' else 'c03:straight_line_not_exact', 'straight-line use at %s:%s read the '
                                    'value of the binding at %s:%s, goto returns %s'
                                    % (ln, col, v['line'], v['col'], sorted(landed)), **w)
    return joined


def run(spec):
    from vf.driver import digest
    rec = apimon.Recorder()
    run_dir = os.environ.get('VERIF_RUN_DIR', '/var/tmp')
    os.makedirs(os.path.join(run_dir, 'cases'), exist_ok=True)
    joined = 0
    texts = []
    sample = None
    if spec['mode'] == 'witness':
        A = ('bind', 'a', 'assign')
        U = ('use', 'a')
        items = [
            ('M1', [A, ('class', [A, ('class', [U])])]),
            ('M2', [A, ('def', 'a', None, [('class', [U, A])])]),
            ('M3', [A, ('def', 'a', None, [('def', None, ('a', 'global'), [U])])]),
            ('M4', [A, ('class', [A, ('comp', 'a', 'b'), ('lambda', 'a')])]),
            ('M5', [A, ('class', [A, ('def', None, None, [U])])]),
            ('M6', [('bind', 'len', 'except'), ('use', 'len')]),
            ('M7', [('def', None, None, [('def', None, ('a', 'nonlocal'), [A]), U, A])]),
            ('M8', [('def', 'b', None, [('bind', 'b', 'for'), ('default_use', 'b', 'lambda'),
                                        ('bind', 'b', 'with')])]),
            ('M9', [A, ('class', [A, ('default_use', 'a', 'lambda')])]),
            ('M10', [A, ('class', [A, ('class', [('comp', 'a', 'b')])])]),
        ]
    elif spec['mode'] == 'small':
        shapes = list(scopes.small_shapes())
        items = [('shape-%d' % i, shapes[i]) for i in spec['indexes']]
    elif spec['mode'] == 'chain':
        shapes = list(scopes.class_chain_shapes())
        items = [('chain-%d' % i, shapes[i]) for i in spec['indexes']]
    else:
        items = []
        for sd in spec['seeds']:
            rnd = random.Random(sd)
            items.append((sd, scopes.random_ops(rnd, max_depth=rnd.choice([2, 3, 3, 4]))))
    for n, (tag, ops) in enumerate(items):
        prog = scopes.build(ops)
        path = os.path.join(run_dir, 'cases', '%s-%d.py' % (spec['id'], n))
        j = check_program(rec, prog, tag, path)
        joined += j
        texts.append(prog.source())
        if sample is None and j:
            sample = {'program': tag, 'ops': repr(ops)[:400], 'uses_joined': j}
    vio = [v for v in rec.violations if v['key'].startswith('c03')]
    return {'id': spec['id'], 'digest': digest(texts), 'violations': vio,
            'events': {k: v for k, v in rec.events.items() if not k.startswith('call:')},
            'nontrivial': joined >= 1, 'programs': len(items),
            'sample': sample or {'programs': len(items), 'uses_joined': 0}}


def finalize(specs, results, ctx):
    shapes = sum(len(s.get('indexes', [])) for s in specs if s['mode'] == 'small')
    total = len(list(scopes.small_shapes()))
    chains = sum(len(s.get('indexes', [])) for s in specs if s['mode'] == 'chain')
    return {'coverage': {'small_shapes_enumerated': shapes, 'small_shapes_total': total,
                         'class_chain_shapes_enumerated': chains,
                         'class_chain_shapes_total': len(list(scopes.class_chain_shapes())),
                         'exhaustive': shapes == total,
                         'programs': sum(r.get('programs', 0) for r in results)}}
