"""C06 — extract and inline refactorings keep the program valid and equivalent.

Deciding monitors: every result must compile() (all selections); for selections the
generator's flags call pure and once-evaluated, the executed old and new programs must give
the same trace; extract_variable followed by inline of the new variable must be
trace-equivalent to the original."""
import os
import random
import shutil

import jedi

from vf import apimon, refsel
from vf.gen import behaviour as beh
from vf.props import c05

ID = 'C06'
LEVEL = 'exploration'
DECIDING = ['c06:results_compiled', 'c06:traces_compared']
RULE = ('a case = one generated executable program (units partly wrapped into function bodies); '
        'selections: every ast expression range (explicit until-position and cursor-only), every '
        'operand run of a parenthesis-free operator expression that is not itself a sub-expression, '
        'off-by-one perturbations of both ends, statement ranges of 1-3 statements inside function '
        'bodies, every single-assignment variable; refactorings extract_variable, extract_function, '
        'inline. Every returned result must compile; selections flagged pure and once-evaluated '
        '(no assignment target, walrus/yield, impure call, lambda/comprehension interior, '
        'short-circuit operand, conditional branch, while condition, header/default expression) must '
        'keep the trace; extract_variable + inline must keep the trace. Non-trivial: >= 10 results '
        'compiled; distinct by program text.')
ASSUMPTIONS = ['purity flags come from the generator/ast (impure callees are known by name)',
               'inline equivalence claimed only for values without calls or mutable displays']
SIZES = {'quick': (64, 40), 'thorough': (500, 120)}
TIMEOUT = {'quick': 1500, 'thorough': 6 * 3600}


def plan(tier, seed):
    n, per = SIZES[tier]
    return [{'id': 'c06-%d' % i, 'per': per, 'seed': '%s/C06/%d' % (seed, i)} for i in range(n)]


def new_tree(refactoring, root, dest):
    c05.materialise(refactoring, root, dest)
    return c05.read_tree(dest)


def compiles(files):
    for rel, text in files.items():
        try:
            compile(text, rel, 'exec')
        except SyntaxError as e:
            return '%s: %s (line %s)' % (rel, e.msg, e.lineno)
        except ValueError as e:
            return '%s: %s' % (rel, e)
    return None


# statement shapes of listed findings whose results are nevertheless executed and compared
TRACED_STATEMENT_TAGS = ('statements_read_a_variable_they_rebind',
                         'statements_rebind_a_variable_only_conditionally')


def shape_tag(sel, kind, refac):
    """Shape tags of the listed extract_function findings (generator/ast facts, never guessed
    from jedi's output)."""
    f = sel['flags']
    if f.get('operand_run') and refac in ('extract_variable', 'extract_function'):
        # a run of operands that is not a sub-expression of Python's expression tree
        return 'selection_is_an_operand_run_not_a_subexpression'
    if refac != 'extract_function':
        return None
    if f.get('contains_await') or (kind == 'cursor' and f.get('cursor_expands_to_await')):
        return 'selection_contains_await'
    if kind == 'perturbed':
        return 'selection_boundary_inside_a_token'
    if kind == 'cursor' and sel.get('is_stmt'):
        return 'cursor_only_selection_on_a_statement'
    if f.get('binding') or (kind == 'cursor' and f.get('expands_to_binding')):
        return 'selection_is_a_binding_occurrence'
    if f.get('node') == 'Starred':
        return 'selection_is_a_starred_argument'
    if f.get('node') == 'NamedExpr' or 'walrus/yield inside' in f.get('why_not_pure', ()):
        return 'selection_contains_walrus_or_yield'
    if sel.get('is_stmt') and f.get('contains_nonlocal_global'):
        return 'statement_range_contains_global_or_nonlocal'
    if sel.get('is_stmt') and f.get('reads_variable_it_rebinds'):
        return 'statements_read_a_variable_they_rebind'
    if sel.get('is_stmt') and f.get('rebinds_only_conditionally'):
        return 'statements_rebind_a_variable_only_conditionally'
    if sel.get('is_stmt') and f.get('has_return_or_yield') and kind == 'range_nl':
        return 'return_statement_selected_including_its_newline'
    if sel.get('is_stmt') and kind == 'range_nl':
        return 'statement_selection_including_the_newline'
    if sel.get('is_stmt') and kind == 'range':
        return 'statement_selection_not_ending_at_line_end'
    if f.get('contains_comprehension'):
        return 'selection_contains_a_comprehension'
    if f.get('contains_lambda') or f.get('node') == 'Lambda':
        return 'selection_contains_a_lambda'
    if f.get('contains_keyword_argument'):
        return 'selection_contains_a_keyword_argument'
    if f.get('uses_local_def'):
        return 'selection_uses_a_locally_defined_function'
    return None


def run(spec):
    from vf.driver import digest
    rnd = random.Random(spec['seed'])
    rec = apimon.Recorder()
    run_dir = os.environ.get('VERIF_RUN_DIR', '/var/tmp')
    base = os.path.join(run_dir, 'c06-' + spec['id'])
    root = os.path.join(base, 'orig')
    files = beh.generate(rnd, multi=rnd.random() < 0.3, in_function=True)
    c05.write_tree(root, files)
    trace0 = c05.run_program(root)
    res = {'id': spec['id'], 'digest': digest(files), 'events': rec.events, 'violations': [],
           'nontrivial': False}
    if trace0[1] or trace0[0] == 'TIMEOUT':
        res['inconclusive'] = ['generated program does not run cleanly']
        return res
    text = files['main.py']
    exprs, stmts, inlines = refsel.analyse(text)
    lines = text.split('\n')
    requests = []
    for e in exprs:
        requests.append(('extract_variable', 'range', e))
        requests.append(('extract_function', 'range', e))
        if e['flags'].get('operand_run'):
            continue
        if rnd.random() < 0.3:
            requests.append((rnd.choice(['extract_variable', 'extract_function']), 'cursor', e))
        if rnd.random() < 0.25:
            requests.append((rnd.choice(['extract_variable', 'extract_function']), 'perturbed', e))
    for s_ in stmts:
        s_ = dict(s_, is_stmt=True)
        requests.append(('extract_function', 'range', s_))
        requests.append(('extract_function', 'range_nl', s_))
        requests.append(('extract_function', 'range_in', s_))
        if rnd.random() < 0.3:
            requests.append(('extract_function', 'cursor', s_))
        if rnd.random() < 0.2:
            requests.append(('extract_function', 'perturbed', s_))
    for i_ in inlines:
        requests.append(('inline', 'pos', i_))
    rnd.shuffle(requests)
    project = jedi.Project(root)
    path = os.path.join(root, 'main.py')
    compiled = 0
    for k, (refac, kind, sel) in enumerate(requests[:spec['per']]):
        w = {'case': spec['id'], 'refactoring': refac, 'selection_kind': kind, 'text': text,
             'flags': sel['flags']}
        ok, s = apimon.call(rec, 'Script', jedi.Script, text, path=path, project=project, witness=w)
        if not ok:
            continue
        if refac == 'inline':
            l, c = sel['pos']
            w['selection'] = [l, c, sel['name']]
            args, kwargs = (l, c), {}
        else:
            (l, c), (ul, uc) = sel['start'], sel['end']
            if kind == 'perturbed':
                d1, d2 = rnd.choice([(-1, 0), (1, 0), (0, -1), (0, 1), (1, -1)])
                c = max(0, min(len(lines[l - 1]), c + d1))
                uc = max(0, min(len(lines[ul - 1]), uc + d2))
            w['selection'] = [l, c, ul, uc, sel.get('code', '')[:80]]
            args = (l, c)
            kwargs = {'new_name': 'zq_new'}
            if kind == 'range_nl':
                # whole lines: up to and including the newline of the last statement
                ul, uc = (ul + 1, 0) if ul < len(lines) else (ul, len(lines[ul - 1]))
                w['selection'] = [l, c, ul, uc, 'statements incl. newline']
            if kind == 'range_in':
                # the end position lies inside the last token of the last statement (the form
                # upstream's own refactoring fixtures use)
                uc = max(0, uc - 1)
                w['selection'] = [l, c, ul, uc, 'statements, end inside last token']
            if kind != 'cursor':
                kwargs.update(until_line=ul, until_column=uc)
        ok, ref = apimon.call(rec, 'refactor.' + refac, getattr(s, refac), *args, witness=w, **kwargs)
        s = None
        tag = shape_tag(sel, kind, refac)
        if not ok:
            # an exception other than RefactoringError/ValueError: C07's contract; logged here
            rec.ev('c06:other_exception_left_to_C07')
            continue
        if ref is None or isinstance(ref, Exception):
            rec.ev('c06:refused')
            continue
        dest = os.path.join(base, 'new-%d' % k)
        try:
            newf = new_tree(ref, root, dest)
        except Exception as e:
            rec.ev('c06:result_not_materialisable')
            shutil.rmtree(dest, ignore_errors=True)
            continue
        rec.ev('c06:results_compiled')
        rec.ev('c06:' + refac)
        compiled += 1
        err = compiles(newf)
        if err:
            rec.violate('c06:does_not_compile:' + (tag or refac), '%s (%s selection %s) returns code that '
                        'does not compile: %s' % (refac, kind, w['selection'], err),
                        new_main=newf.get('main.py', '')[:3000], **w)
            shutil.rmtree(dest, ignore_errors=True)
            continue
        claim = (kind in ('range', 'pos', 'range_in') and not tag and
                 (sel['flags'].get('pure') if refac != 'inline' else sel['flags'].get('equivalence_claimed')))
        if sel['flags'].get('operand_run'):
            # jedi documents that `2 + 3` can be extracted from `1 * 2 + 3`: the result is
            # compared with the original program like any other pure selection (listed finding)
            claim = bool(kind == 'range' and sel['flags'].get('pure'))
        if refac == 'extract_function' and sel.get('is_stmt'):
            # statement ranges: compile-or-refuse always; trace equality for blocks of plain
            # assignments with pure values, selected in the convention upstream's fixtures use
            claim = bool(kind == 'range_in' and (not tag or tag in TRACED_STATEMENT_TAGS)
                         and sel['flags'].get('pure_block'))
        if claim:
            trace1 = c05.run_program(dest)
            rec.ev('c06:traces_compared')
            if trace1 != trace0:
                rec.violate('c06:behaviour_changed:' + (tag or refac), '%s of the pure selection %s changes '
                            'the program: %r -> %r' % (refac, w['selection'], trace0[0][-100:] + trace0[1],
                                                       trace1[0][-100:] + trace1[1]),
                            new_main=newf.get('main.py', '')[:3000], **w)
            # extract_variable followed by inline of the new variable
            if refac == 'extract_variable' and not tag:
                ntext = newf['main.py']
                pos = None
                for li, ltxt in enumerate(ntext.split('\n'), 1):
                    idx = ltxt.find('zq_new = ')
                    if idx >= 0 and ltxt.strip().startswith('zq_new = '):
                        pos = (li, idx)
                        break
                if pos:
                    project2 = jedi.Project(dest)
                    ok, s2 = apimon.call(rec, 'Script', jedi.Script, ntext, path=os.path.join(dest, 'main.py'),
                                         project=project2, witness=w)
                    if ok:
                        ok, back = apimon.call(rec, 'refactor.inline', s2.inline, *pos, witness=w)
                        s2 = None
                        if ok and back is not None and not isinstance(back, Exception):
                            dest2 = os.path.join(base, 'back-%d' % k)
                            try:
                                bf = new_tree(back, dest, dest2)
                                rec.ev('c06:extract_inline_round_trips')
                                err2 = compiles(bf)
                                t2 = c05.run_program(dest2) if not err2 else ('', 'SyntaxError')
                                if t2 != trace0:
                                    rec.violate('c06:extract_then_inline_not_equivalent',
                                                'extract_variable of %s then inline gives %r instead of %r'
                                                % (w['selection'], t2[0][-100:] + t2[1], trace0[0][-100:]), **w)
                                elif bf.get('main.py') == text:
                                    rec.ev('c06:round_trip_byte_identical')
                            except Exception:
                                rec.ev('c06:result_not_materialisable')
                            shutil.rmtree(dest2, ignore_errors=True)
        shutil.rmtree(dest, ignore_errors=True)
    shutil.rmtree(base, ignore_errors=True)
    res['violations'] = [v for v in rec.violations if v['key'].startswith('c06')]
    res['events'] = {k: v for k, v in rec.events.items() if not k.startswith('call:')}
    res['nontrivial'] = compiled >= 10
    res['sample'] = {'case': spec['id'], 'expressions': len(exprs), 'statement_ranges': len(stmts),
                     'inline_candidates': len(inlines), 'results': compiled,
                     'main_head': text[:200]}
    return res
