"""C20 — project settings round-trip and shape sys.path as documented.

Deciding monitors: (a) save/load round trip compared attribute by attribute; (b) a
postcondition contract wrapped around the real Project._get_sys_path, evaluated on every
call any query makes (no duplicates, project first when smart, base order kept, suffix
order, equality with the composition model of the statement); (c) through the public API
only: an import of a module present in two roots resolves to the earlier root, modules in
added_sys_path / ancestor directories resolve."""
import itertools
import os
import pathlib
import random
import shutil

import jedi
from jedi.api.project import Project

from vf import apimon

ID = 'C20'
LEVEL = 'exploration'
DECIDING = ['c20:contract_evaluations', 'c20:roundtrips']
RULE = ('a case = one generated project directory (non-ASCII names in some) with modules in two '
        'extra roots, x every combination of {sys_path: None / explicit str list / Path list / '
        'with duplicates / containing the project / entries that are string prefixes of each '
        'other / trailing slash} x {added_sys_path: none / one / duplicated / Path-typed / outside} '
        'x smart_sys_path x {project path as str / Path / relative} x environment_path {None, str, '
        'Path} x load_unsafe_extensions, x buffer locations (no path, outside the project, inside '
        'at depth 0..4 with/without __init__.py on the way). Each configuration is saved, loaded '
        'and compared, and a Script is built and asked get_sys_path() and three import '
        'resolutions. Non-trivial: the contract was evaluated >= 20 times in the case; distinct '
        'by configuration digest.')
ASSUMPTIONS = ['composition model transcribed from the statement: dedupe([project]+base+added+buildout+ancestors)',
               'paths compared as strings after str(); relative project paths compared after absolute()',
               'entries equal up to a trailing slash are recorded, not charged']
TIMEOUT = {'quick': 900, 'thorough': 3 * 3600}
SIZES = {'quick': (240, 120), 'thorough': (3000, 200)}


def plan(tier, seed):
    n, ncfg = SIZES[tier]
    return [{'id': 'c20-%d' % i, 'ncfg': ncfg, 'seed': '%s/C20/%d' % (seed, i)} for i in range(n)]


# --------------------------------------------------------------------------- model

def dedupe(seq):
    seen, out = set(), []
    for x in seq:
        if x not in seen:
            seen.add(x)
            out.append(x)
    return out


def model_sys_path(project, base, script_path, add_parent_paths=True, add_init_paths=False,
                   buildout=()):
    pre = [str(project.path)] if project.smart_sys_path else []
    suf = list(project.added_sys_path)
    if project.smart_sys_path and script_path is not None:
        suf += list(buildout)
        if add_parent_paths:
            anc = []
            ppath = project.path
            for parent in pathlib.Path(script_path).parents:
                if parent == ppath or ppath not in parent.parents:
                    break
                if not add_init_paths and (parent / '__init__.py').is_file():
                    continue
                anc.append(str(parent))
            suf += reversed(anc)
    return dedupe(pre + list(base) + suf)


# --------------------------------------------------------------------------- contract

_STATE = {'rec': None}


def install_contract():
    if getattr(Project, '_verif_contract', False):
        return
    orig = Project._get_sys_path

    def contracted(self, inference_state, *args, **kwargs):
        result = orig(self, inference_state, *args, **kwargs)
        rec = _STATE['rec']
        if rec is None:
            return result
        add_parent = kwargs.get('add_parent_paths', args[0] if args else True)
        add_init = kwargs.get('add_init_paths', args[1] if len(args) > 1 else False)
        rec.ev('c20:contract_evaluations')
        w = {'project_path': str(self._path), 'sys_path': self._sys_path,
             'added': list(self.added_sys_path), 'smart': self._smart_sys_path,
             'script_path': str(inference_state.script_path), 'result': list(result),
             'add_init_paths': add_init}
        if len(set(result)) != len(result):
            rec.violate('c20:duplicates', 'effective sys.path has duplicates: %s' % result, **w)
        norm = [r.rstrip('/') or '/' for r in result]
        if len(set(norm)) != len(norm):
            rec.ev('c20:duplicates_up_to_trailing_slash_recorded')
        if self._smart_sys_path and (not result or result[0] != str(self._path)):
            rec.violate('c20:project_not_first', 'smart_sys_path on but path[0] is %r, project %r'
                        % (result[:1], str(self._path)), **w)
        base = list(self._sys_path) if self._sys_path is not None else \
            [p for p in inference_state.environment.get_sys_path() if p != '']
        it = iter(result)
        if not all(b in it for b in dedupe(base)):
            rec.violate('c20:base_order', 'base entries %s are not a subsequence of %s'
                        % (dedupe(base), result), **w)
        from jedi.inference.sys_path import discover_buildout_paths
        buildout = []
        if self._smart_sys_path and inference_state.script_path is not None:
            buildout = list(map(str, discover_buildout_paths(inference_state,
                                                             inference_state.script_path)))
        exp = model_sys_path(self, base, inference_state.script_path, add_parent, add_init, buildout)
        rec.ev('c20:model_compared')
        if list(result) != exp:
            rec.violate('c20:composition', 'effective sys.path %s != composition model %s'
                        % (result, exp), **w)
        return result

    Project._get_sys_path = contracted
    Project._verif_contract = True


# --------------------------------------------------------------------------- run

def run(spec):
    from vf.driver import digest
    install_contract()
    rnd = random.Random(spec['seed'])
    rec = apimon.Recorder()
    _STATE['rec'] = rec
    run_dir = os.environ.get('VERIF_RUN_DIR', '/var/tmp')
    base = pathlib.Path(run_dir) / ('c20-' + spec['id'])
    uni = rnd.random() < 0.3
    proj = base / ('projé' if uni else 'proj')
    r1, r2 = base / 'ab', base / 'abc'      # string prefixes of each other
    extra = base / 'extra'
    for d in (proj, r1, r2, extra):
        d.mkdir(parents=True, exist_ok=True)
    (r1 / 'clash.py').write_text('WHO = "r1"\ndef only_r1(): pass\n')
    (r2 / 'clash.py').write_text('WHO = "r2"\ndef only_r2(): pass\n')
    (extra / 'addedmod.py').write_text('def from_added(): pass\n')
    (proj / 'topmod.py').write_text('def from_project(): pass\n')
    if rnd.random() < 0.4:
        # the project directory is itself a package
        (proj / '__init__.py').write_text('')
    # nested dirs inside the project, some with __init__.py
    chain = []
    d = proj
    inits = []
    for depth in range(4):
        d = d / ('d%d%s' % (depth, 'ü' if uni and depth == 1 else ''))
        d.mkdir(exist_ok=True)
        has_init = rnd.random() < 0.5
        if has_init:
            (d / '__init__.py').write_text('')
        (d / ('sib%d.py' % depth)).write_text('def sib_fn%d(): pass\n' % depth)
        chain.append(d)
        inits.append(has_init)
    outside = base / 'outside'
    outside.mkdir(exist_ok=True)
    # a sibling directory whose name merely starts with the project's name
    sibling = base / (proj.name + '_old') / 'scripts'
    sibling.mkdir(parents=True, exist_ok=True)
    (sibling.parent / 'sibling_helper.py').write_text('def from_sibling(): pass\n')

    sys_path_opts = [
        ('none', None),
        ('str', [str(r1), str(r2)]),
        ('str_rev', [str(r2), str(r1)]),
        ('path', [r1, r2]),
        ('dups', [str(r1), str(r2), str(r1)]),
        ('with_project', [str(proj), str(r1), str(r2)]),
        ('slash', [str(r1) + '/', str(r2)]),
    ]
    added_opts = [('none', ()), ('one', [str(extra)]), ('dup', [str(extra), str(extra)]),
                  ('path', [extra]), ('dup_of_base', [str(r1), str(extra)]),
                  ('outside', [str(outside)])]
    proj_opts = [('str', str(proj)), ('path', proj), ('rel', None)]
    env_opts = [('none', None), ('str', '/venv/bin/python'), ('path', pathlib.Path('/venv/bin/python'))]
    loc_opts = [('nopath', None), ('outside', outside / 'buf.py'),
                ('outside_name_prefix', sibling / 'buf.py'), ('depth0', proj / 'buf.py')] + \
        [('depth%d' % (i + 1), c / 'buf.py') for i, c in enumerate(chain)]
    # the buffers inside the project are saved files in half of the cases
    if rnd.random() < 0.5:
        for _n, _l in loc_opts:
            if _l is not None and proj in pathlib.Path(_l).parents:
                pathlib.Path(_l).write_text('# saved buffer\n')
    combos = list(itertools.product(sys_path_opts, added_opts, (True, False), proj_opts, env_opts,
                                    (False, True), loc_opts))
    rnd.shuffle(combos)
    nontrivial_cfg = 0
    old_cwd = os.getcwd()
    sample = None
    try:
        for (spn, sp), (adn, ad), smart, (pjn, pj), (envn, envp), unsafe, (locn, loc) in combos[:spec['ncfg']]:
            if pjn == 'rel':
                os.chdir(str(base))
                pj = pathlib.Path(proj.name) if rnd.random() < 0.5 else proj.name
            else:
                os.chdir(old_cwd)
            cfg = {'sys_path': spn, 'added': adn, 'smart': smart, 'project': pjn, 'env': envn,
                   'unsafe': unsafe, 'loc': locn}
            w = {'case': spec['id'], 'config': cfg}
            ok, p = apimon.call(rec, 'Project', Project, pj, sys_path=sp, added_sys_path=ad,
                                smart_sys_path=smart, environment_path=envp,
                                load_unsafe_extensions=unsafe, witness=w)
            if not ok:
                continue
            sample = sample or cfg
            # ---- (a) round trip
            ok, _ = apimon.call(rec, 'Project.save', p.save, witness=w)
            if ok:
                ok, q = apimon.call(rec, 'Project.load', Project.load, p.path, witness=w)
                if ok:
                    rec.ev('c20:roundtrips')
                    for attr in ('path', 'sys_path', 'added_sys_path', 'smart_sys_path',
                                 'load_unsafe_extensions', '_environment_path'):
                        a, b = getattr(p, attr), getattr(q, attr)
                        if attr == 'path':
                            a, b = pathlib.Path(a).absolute(), pathlib.Path(b).absolute()
                        elif attr == '_environment_path':
                            a, b = (None if a is None else str(a)), (None if b is None else str(b))
                        elif isinstance(a, (list, tuple)):
                            a, b = list(map(str, a)), (None if b is None else list(map(str, b)))
                        if a != b:
                            rec.violate('c20:roundtrip:' + attr.lstrip('_'),
                                        'after save+load %s is %r, was %r' % (attr, b, a), **w)
                # ---- the saved project is what default discovery loads for a buffer below it
                # (documented: the first thing looked for while walking up is the saved configuration)
                if ok and loc is not None and proj in pathlib.Path(loc).parents:
                    ok, dp = apimon.call(rec, 'get_default_project', jedi.get_default_project, loc, witness=w)
                    if ok:
                        rec.ev('c20:default_project_discoveries')
                        got = (str(pathlib.Path(dp.path).absolute()), dp.sys_path and list(map(str, dp.sys_path)),
                               list(map(str, dp.added_sys_path)), dp.smart_sys_path, dp.load_unsafe_extensions)
                        want = (str(pathlib.Path(p.path).absolute()), p.sys_path and list(map(str, p.sys_path)),
                                list(map(str, p.added_sys_path)), p.smart_sys_path, p.load_unsafe_extensions)
                        if got != want:
                            rec.violate('c20:default_project_is_not_the_saved_one', 'get_default_project(%s) gives '
                                        '%s, the project saved in %s has %s' % (loc, got, p.path, want), **w)
            shutil.rmtree(str(pathlib.Path(p.path).absolute() / '.jedi'), ignore_errors=True)
            # ---- (b)+(c) Script, effective path, import resolution
            if envn != 'none':
                # an explicit environment_path starts a new interpreter per Project (half a
                # second each): these configurations exercise the round trip only
                rec.ev('c20:explicit_environment_roundtrip_only')
                continue
            if pjn == 'rel' and isinstance(pj, pathlib.Path):
                # a relative Path is kept relative by Project(); the ancestor rule compares it
                # with the absolute buffer path. Documented usage is an absolute path or a str:
                # only the round trip is claimed for this form.
                rec.ev('c20:relative_Path_project_not_used_for_sys_path')
                continue
            code = 'import clash\nclash.only_\nimport addedmod\nimport topmod\nimport sib%d\n'
            code = code % (max(0, int(locn[5:]) - 1) if locn.startswith('depth') and locn != 'depth0' else 0)
            ok, s = apimon.call(rec, 'Script', jedi.Script, code, path=loc, project=p, witness=w)
            if not ok:
                continue
            ok, sp_eff = apimon.call(rec, 'get_sys_path', s._inference_state.get_sys_path, witness=w)
            if not ok:
                continue
            nontrivial_cfg += 1
            settings_before = (str(p.path), p.sys_path and list(p.sys_path), list(p.added_sys_path),
                               p.smart_sys_path, p.load_unsafe_extensions)
            ok, comps = apimon.call(rec, 'complete', s.complete, 2, len('clash.only_'), witness=w)
            if ok:
                roots = [x.rstrip('/') for x in sp_eff]
                first = next((r for r in roots if r in (str(r1), str(r2))), None)
                names = sorted(c.name for c in comps)
                rec.ev('c20:clash_resolutions')
                exp = {str(r1): ['only_r1'], str(r2): ['only_r2'], None: []}[first]
                if names != exp:
                    rec.violate('c20:clash_resolution', '`import clash` offers %s; first root holding '
                                'clash.py on the effective path is %s' % (names, first),
                                effective=sp_eff, **w)
            for line, mod, root in ((3, 'addedmod', str(extra)), (4, 'topmod', str(proj)),
                                    (5, code.splitlines()[4].split()[1], None)):
                ok, defs = apimon.call(rec, 'infer', s.infer, line, 8, witness=w)
                if not ok:
                    continue
                if root is None:
                    k = int(mod[3:])
                    root = str(chain[k])
                found = any(d.module_path and str(d.module_path).startswith(root) for d in defs)
                # inference (not completion) resolves imports over the path variant that also
                # holds ancestors with an __init__.py (upstream GH #1446): same composition,
                # add_init_paths=True; the contract has checked that call against the model too
                sp_inf = s._inference_state.get_sys_path(add_init_paths=True)
                on_path = root in [x.rstrip('/') for x in sp_inf]
                rec.ev('c20:import_resolutions')
                if found != on_path:
                    rec.violate('c20:path_not_used_by_imports', 'import %s resolved=%s but its directory '
                                '%s on effective path=%s' % (mod, found, root, on_path),
                                effective=sp_eff, **w)
            # ---- the Project object is shared between Scripts: queries must not change its settings
            settings_after = (str(p.path), p.sys_path and list(p.sys_path), list(p.added_sys_path),
                              p.smart_sys_path, p.load_unsafe_extensions)
            rec.ev('c20:settings_invariant_checked')
            if settings_after != settings_before:
                rec.violate('c20:project_settings_mutated_by_query', 'answering queries changed the '
                            'Project settings: %s -> %s' % (settings_before, settings_after), **w)
            # a second Script of the same Project at another location sees a path composed from
            # the configured settings only (contract), and the round trip after use still holds
            loc2 = chain[1] / 'buf2.py'
            ok, s2 = apimon.call(rec, 'Script', jedi.Script, 'import topmod\n', path=loc2, project=p, witness=w)
            if ok:
                apimon.call(rec, 'infer', s2.infer, 1, 8, witness=w)
                ok, sp2 = apimon.call(rec, 'get_sys_path', s2._inference_state.get_sys_path, witness=w)
                if ok and locn.startswith('depth') and locn not in ('depth0', 'depth1', 'depth2'):
                    leak = [x for x in sp2 if x.startswith(str(chain[2]))]
                    if leak:
                        rec.violate('c20:ancestors_of_another_script_leaked', 'the sys path of a Script in '
                                    '%s contains %s, ancestors of an earlier Script of the same Project'
                                    % (loc2, leak), **w)
            ok, _ = apimon.call(rec, 'Project.save', p.save, witness=w)
            if ok:
                ok, q = apimon.call(rec, 'Project.load', Project.load, p.path, witness=w)
                if ok:
                    rec.ev('c20:roundtrips_after_use')
                    if list(map(str, q.added_sys_path)) != list(map(str, ad)) or \
                            (q.sys_path is None) != (sp is None):
                        rec.violate('c20:roundtrip_after_use', 'after queries, save+load gives '
                                    'added_sys_path %r (configured %r)' % (q.added_sys_path, list(map(str, ad))), **w)
            shutil.rmtree(str(pathlib.Path(p.path).absolute() / '.jedi'), ignore_errors=True)
    finally:
        os.chdir(old_cwd)
        _STATE['rec'] = None
        shutil.rmtree(str(base), ignore_errors=True)
    vio = [v for v in rec.violations if v['key'].startswith(('c20:', 'exc:'))]
    return {'id': spec['id'], 'digest': digest([spec['seed']]),
            'nontrivial': rec.events.get('c20:contract_evaluations', 0) >= 20,
            'events': {k: v for k, v in rec.events.items() if not k.startswith('call:')},
            'violations': vio,
            'sample': {'case': spec['id'], 'first_config': sample, 'configs': nontrivial_cfg,
                       'contract_evaluations': rec.events.get('c20:contract_evaluations', 0)}}
