"""C15 — inference gives up instead of recursing or exploding.

Deciding monitor: the sys.monitoring work counter (Python function entries between call and
return of an API method): no RecursionError escapes, no query exceeds the work budget, and
for scaling families the work obeys a polynomial growth envelope."""
import os
import random

import jedi

from vf import apimon, work
from vf.gen import cycles

ID = 'C15'
LEVEL = 'exploration'
DECIDING = ['c15:queries_measured', 'c15:envelope_points']
BUDGET = 300_000_000
SLACK = 500_000   # one-off costs (first load of a stub module) are not growth
RULE = ('graph cases: a generated buffer (plus modules for import cycles) made of up to 8 cyclic '
        'gadgets (22 kinds: assignment, call, unbounded call, (mutual) recursion under an unresolvable return annotation, inheritance via alias, '
        'self-inheritance, attribute, container, decorator, property, __getattr__, generator, '
        'lambda, closure, default, annotation, import cycle), up to 40 nodes, x every use x '
        '{infer, goto, help, complete, get_signatures, get_references}; each query runs under a '
        'budget of 3e8 function entries. family cases: 20 scaling families x n = 1,2,4,...,64 '
        '(quick: ..32) x queries; work(2n) <= 6*work(n)+500000 and work(nmax) <= nmax^3*max(work(1),1000). '
        'Non-trivial: >= 5 queries measured; distinct by generated text.')
ASSUMPTIONS = ['work = PY_START events counted by sys.monitoring; C-level time is not counted',
               'budget 3e8 events per query; envelope degree <= 3 with slack']
SIZES = {'quick': (400, 64), 'thorough': (6000, 64)}
TIMEOUT = {'quick': 1800, 'thorough': 6 * 3600}


def plan(tier, seed):
    n_graphs, nmax = SIZES[tier]
    specs = [{'id': 'c15g-%d' % i, 'mode': 'graph', 'seed': '%s/C15/g%d' % (seed, i),
              'getattr_max': 2 if tier == 'quick' else 4} for i in range(n_graphs)]
    for f in cycles.FAMILIES:
        specs.append({'id': 'c15f-' + f, 'mode': 'family', 'family': f, 'nmax': nmax,
                      'seed': '%s/C15/f%s' % (seed, f)})
    specs.append({'id': 'c15w-getattr-cycle', 'mode': 'witness_getattr', 'n': 11, 'seed': 'w'})
    return specs


def _write(case_dir, files):
    os.makedirs(case_dir, exist_ok=True)
    for rel, text in files.items():
        with open(os.path.join(case_dir, rel), 'w') as f:
            f.write(text)


_warm = [False]


def _warmup():
    if not _warm[0]:
        s = jedi.Script('import os\nx = [1, "a"]\nx[0].real\nos.path\n',
                        path=os.path.join(os.environ.get('VERIF_RUN_DIR', '/var/tmp'), 'warm15.py'))
        s.complete(3, 5)
        s.infer(4, 5)
        _warm[0] = True


def _queries_for(text, line, col):
    ltext = text.splitlines()[line - 1]
    if ltext.endswith('.'):
        return ['complete']
    if ltext.endswith('('):
        return ['get_signatures']
    return ['infer', 'goto', 'help', 'get_references']


def _measure(rec, script, m, line, col, w):
    fn = {'complete': script.complete, 'get_signatures': script.get_signatures,
          'infer': script.infer, 'goto': lambda l, c: script.goto(l, c, follow_imports=True),
          'help': script.help,
          'get_references': lambda l, c: script.get_references(l, c, scope='file')}[m]
    rec.ev('c15:queries_measured')
    try:
        with work.measure(BUDGET) as ms:
            r = fn(line, col)
            n = len(r) if r is not None else 0
        rec.ev('c15:returned')
        return ms.work, n
    except RecursionError:
        key = 'c15:RecursionError:' + w.get('kind', '?')
        if m == 'get_references' and w.get('kind', '').startswith('graph:') and w.get('on_attribute'):
            # listed finding (one mechanism whatever the gadget): reference search from an
            # attribute of an instance whose attributes/properties are defined cyclically
            key = 'c15:RecursionError:get_references_on_attribute_of_cyclic_definitions'
        rec.violate(key, 'RecursionError escaped %s at %s:%s' % (m, line, col), method=m,
                    pos=[line, col], **w)
    except work.WorkBudgetExceeded:
        rec.violate('c15:budget_exceeded', '%s at %s:%s did not return within %d function entries'
                    % (m, line, col, BUDGET), method=m, pos=[line, col], **w)
    except Exception as e:
        rec.ev('c15:other_exception_left_to_C01')
        rec.ev('c15:exc_' + type(e).__name__)
    return None, None


def run(spec):
    from vf.driver import digest
    _warmup()
    rec = apimon.Recorder()
    run_dir = os.environ.get('VERIF_RUN_DIR', '/var/tmp')
    rnd = random.Random(spec['seed'])
    res = {'id': spec['id'], 'events': rec.events, 'violations': []}
    if spec['mode'] == 'graph':
        files, main, uses = cycles.cyclic_graph(rnd, getattr_max=spec.get('getattr_max', 3))
        case_dir = os.path.join(run_dir, 'c15-' + spec['id'])
        _write(case_dir, files)
        text = files[main]
        script = jedi.Script(text, path=os.path.join(case_dir, main),
                             project=jedi.Project(case_dir))
        works = []
        for (line, col, gk) in uses:
            for m in _queries_for(text, line, col):
                ltext = text.split('\n')[line - 1]
                wk, n = _measure(rec, script, m, line, col,
                                 {'case': spec['id'], 'kind': 'graph:' + gk, 'text': text[:5000],
                                  'on_attribute': '().' in ltext and not ltext.endswith(('.', '('))})
                if wk is not None:
                    works.append(wk)
        res['digest'] = digest(files)
        res['nontrivial'] = len(works) >= 5
        res['sample'] = {'case': spec['id'], 'lines': text.count('\n'), 'uses': len(uses),
                         'max_work': max(works) if works else None,
                         'head': text[:200]}
        if works:
            res['max_work'] = max(works)
    elif spec['mode'] == 'family':
        table = {}
        ns = [n for n in (1, 2, 4, 8, 16, 32, 64) if n <= spec['nmax']]
        stop = False
        for n in ns:
            if stop:
                break
            files, main, uses = cycles.family(spec['family'], n)
            case_dir = os.path.join(run_dir, 'c15-%s-%d' % (spec['id'], n))
            _write(case_dir, files)
            text = files[main]
            script = jedi.Script(text, path=os.path.join(case_dir, main),
                                 project=jedi.Project(case_dir))
            for ui, (line, col) in enumerate(uses):
                for m in _queries_for(text, line, col):
                    wk, nres = _measure(rec, script, m, line, col,
                                        {'case': spec['id'], 'kind': 'family', 'family': spec['family'], 'n': n})
                    if wk is not None:
                        row = table.setdefault('%d/%s' % (ui, m), {})
                        row[n] = wk
                        prev = [k for k in row if k < n]
                        if prev and wk > 6 * row[max(prev)] + SLACK:
                            stop = True   # the envelope is already broken: larger n only burn time
                    else:
                        stop = True
        for q, row in table.items():
            pts = sorted(row)
            for a, b in zip(pts, pts[1:]):
                rec.ev('c15:envelope_points')
                if row[b] > 6 * row[a] + SLACK:
                    rec.violate('c15:growth_step', 'family %s query %s: work(%d)=%d > 6*work(%d)+500000 '
                                '(work(%d)=%d)' % (spec['family'], q, b, row[b], a, a, row[a]),
                                family=spec['family'], query=q, table=row)
                    break
            if pts and pts[-1] > 1:
                rec.ev('c15:envelope_points')
                if row[pts[-1]] > pts[-1] ** 3 * max(row[pts[0]], 1000):
                    rec.violate('c15:growth_total', 'family %s query %s: work(%d)=%d exceeds the cubic '
                                'envelope over work(%d)=%d' % (spec['family'], q, pts[-1], row[pts[-1]],
                                                               pts[0], row[pts[0]]),
                                family=spec['family'], query=q, table=row)
        res['digest'] = digest(spec['family'])
        res['nontrivial'] = rec.events.get('c15:envelope_points', 0) >= 5
        res['sample'] = {'case': spec['id'], 'family': spec['family'], 'work_by_n': table}
    else:
        files, main, uses = cycles.family('getattr_proxy_chain', 1)
        n = spec['n']
        L = []
        for i in range(n):
            L += ['class P%d:' % i, '    def __getattr__(self, k):',
                  '        return getattr(P%d(), k)' % ((i + 1) % n), '']
        L.append('P0().')
        text = '\n'.join(L) + '\n'
        case_dir = os.path.join(run_dir, 'c15-' + spec['id'])
        _write(case_dir, {'main.py': text})
        script = jedi.Script(text, path=os.path.join(case_dir, 'main.py'), project=jedi.Project(case_dir))
        wk, nres = _measure(rec, script, 'complete', len(L), len(L[-1]),
                            {'case': spec['id'], 'kind': 'getattr_proxy_cycle', 'n': n})
        res['digest'] = digest(text)
        res['nontrivial'] = True
        res['sample'] = {'case': spec['id'], 'getattr_cycle_n': n, 'work': wk}
    res['violations'] = [v for v in rec.violations if v['key'].startswith('c15')]
    res['events'] = {k: v for k, v in rec.events.items() if not k.startswith('call:')}
    return res


def finalize(specs, results, ctx):
    works = sorted(r['max_work'] for r in results if r.get('max_work'))
    cov = {}
    if works:
        cov['graph_query_work'] = {'max': works[-1], 'median': works[len(works) // 2],
                                   'budget': BUDGET}
    fam = {r['sample']['family']: {q: row.get(str(max(map(int, row)))) if row else None
                                   for q, row in r['sample']['work_by_n'].items()}
           for r in results if r.get('sample', {}).get('family')}
    cov['family_work_at_nmax'] = fam
    return {'coverage': cov}
