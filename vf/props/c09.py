"""C09 — changes to project files on disk are always seen.

Deciding monitor: after every file-system mutation of a generated project, the answers of a
new Script in the long-lived process A (and of a new process C that shares A's on-disk parser
cache) are compared with those of a fresh process B with an empty cache.  At a disagreement the
monitor reads the mechanism (file mtime vs. change_time of parso's cache item) to tell the
listed finding (stale tree accepted because the new mtime is not newer) from anything else."""
import json
import os
import random
import shutil
import subprocess
import time

import jedi
import parso

from vf import apimon, norm
from vf.boot import PYTHON, VERIF

ID = 'C09'
LEVEL = 'exploration'
DECIDING = ['c09:comparisons']
RULE = ('a case = a generated project (modules, a package with sub-modules, a stub next to a module) '
        '+ a history of 12 file-system mutations from {write new, overwrite same size, overwrite '
        'different size, append, delete, rename over another file, module->package, '
        'package->module, add/remove __init__.py, add/remove .pyi, touch}, each with a timing '
        'variant {natural mtime, mtime forced equal, mtime forced older (os.utime / rename of an '
        'older file)}. After every step process A asks 10 import-based queries (incl. a sub-module that appears and disappears while the package __init__ stays untouched) through new Scripts; '
        'every third step and at the end the same queries go to a fresh process B (empty cache) and '
        'to a new process C sharing A\'s cache directory; normal forms must be equal. Non-trivial: '
        '>= 10 comparisons with a non-empty answer; distinct by history digest.')
ASSUMPTIONS = ['B = new interpreter with a private cache holding typeshed pickles only',
               'C runs strictly after A has written its pickles (no concurrent cache sharing)',
               'local file system with nanosecond mtimes']
SIZES = {'quick': 64, 'thorough': 640}
TIMEOUT = {'quick': 1800, 'thorough': 6 * 3600}


def plan(tier, seed):
    return [{'id': 'c09-%d' % i, 'steps': 12, 'seed': '%s/C09/%d' % (seed, i)}
            for i in range(SIZES[tier])]


def module_text(name, version, rnd):
    lines = ['"""%s version %d"""' % (name, version)]
    for k in range(rnd.randint(0, version % 3)):
        lines.append('')
    lines.append('def %s_fn_v%d(a, b=%d):' % (name, version, version))
    lines.append('    return a')
    lines.append('class %sCls%d:' % (name.capitalize(), version))
    lines.append('    attr_v%d = %d' % (version, version))
    lines.append('COMMON = %d' % version)
    lines.append('def common_fn(): return "%s%d"' % (name, version))
    return '\n'.join(lines) + '\n'


QUERIES_TEXT = [
    ('import moda\nmoda.', 'complete', 2, 5),
    ('from moda import common_fn\ncommon_fn', 'goto_follow', 2, 4),
    ('from moda import *\nCOMMON', 'goto_follow', 2, 3),
    ('import pkga.sub\npkga.sub.', 'complete', 2, 9),
    ('from pkga import sub\nsub.common_fn', 'goto_follow', 2, 8),
    ('import modb\nmodb.common_fn(', 'get_signatures', 2, 15),
    # a sub-module that does not exist at first and appears / disappears while pkga/__init__.py
    # stays as it is: reached through the package's own listing of its sub-modules
    ('import pkga.extra\npkga.extra.', 'complete', 2, 11),
    ('from pkga import ', 'complete', 1, 17),
    ('import pkga.extra\npkga.', 'complete', 2, 5),
]
REL_QUERY = ('from . import sub\nsub.', 'complete', 2, 4)


def fs_state(root):
    out = []
    for d, _, fs in os.walk(root):
        for f in sorted(fs):
            if f.startswith('buf'):
                continue
            p = os.path.join(d, f)
            out.append((os.path.relpath(p, root), os.path.getsize(p)))
    return sorted(out)


def mutate_fs(rnd, root, version, log):
    """Apply one mutation; returns description."""
    def w(rel, text, timing='natural'):
        p = os.path.join(root, rel)
        os.makedirs(os.path.dirname(p), exist_ok=True)
        old = os.stat(p) if os.path.exists(p) else None
        with open(p, 'w') as f:
            f.write(text)
        if old is not None and timing != 'natural':
            t = old.st_mtime_ns if timing == 'equal' else old.st_mtime_ns - 5_000_000_000
            os.utime(p, ns=(t, t))
        return timing if old is not None else 'natural'

    timing = rnd.choice(['natural', 'natural', 'natural', 'equal', 'older'])
    target = rnd.choice(['moda', 'modb', 'pkga/sub', 'pkga/__init__', 'pkga/extra', 'pkga/extra'])
    rel = target + '.py'
    p = os.path.join(root, rel)
    kind = rnd.choice(['overwrite', 'overwrite_same_size', 'append', 'delete', 'rename_over',
                       'mod_to_pkg', 'pkg_to_mod', 'toggle_init', 'toggle_stub', 'touch', 'write_new'])
    name = target.split('/')[-1].replace('__init__', 'pkga')
    if kind == 'overwrite' or kind == 'write_new' or not os.path.exists(p) and kind in ('append', 'touch', 'overwrite_same_size', 'rename_over'):
        if os.path.isdir(os.path.join(root, target)) and not target.endswith('__init__'):
            shutil.rmtree(os.path.join(root, target))
        used = w(rel, module_text(name, version, rnd), timing)
        return '%s %s (%s)' % (kind, rel, used), used
    if kind == 'rename_over' and not os.path.exists(p):
        kind = 'fallthrough'
    if kind == 'overwrite_same_size':
        old = open(p).read()
        new = module_text(name, version, rnd)
        new = (new + '#' * 4000)[:len(old)] if len(new) < len(old) else new[:len(old)]
        if not new.endswith('\n'):
            new = new[:-1] + '\n'
        used = w(rel, new, timing)
        return 'overwrite_same_size %s (%s)' % (rel, used), used
    if kind == 'append':
        old = open(p).read()
        used = w(rel, old + 'def appended_v%d(): pass\n' % version, timing)
        return 'append %s (%s)' % (rel, used), used
    if kind == 'delete':
        if os.path.exists(p):
            os.unlink(p)
        return 'delete %s' % rel, 'natural'
    if kind == 'rename_over':
        # an *older* file is moved over the module: content changes, mtime goes backwards
        tmp = os.path.join(root, 'zz_tmp_old.txt')
        with open(tmp, 'w') as f:
            f.write(module_text(name, version, rnd))
        st = os.stat(p)
        t = st.st_mtime_ns - 7_000_000_000
        os.utime(tmp, ns=(t, t))
        os.replace(tmp, p)
        return 'rename an older file over %s' % rel, 'older'
    if kind == 'mod_to_pkg' and target in ('moda', 'modb'):
        if os.path.exists(p):
            os.unlink(p)
        w(target + '/__init__.py', module_text(name, version, rnd))
        w(target + '/inner.py', module_text('inner', version, rnd))
        return 'module->package %s' % target, 'natural'
    if kind == 'pkg_to_mod' and os.path.isdir(os.path.join(root, target)):
        shutil.rmtree(os.path.join(root, target))
        w(rel, module_text(name, version, rnd))
        return 'package->module %s' % target, 'natural'
    if kind == 'toggle_init':
        ip = os.path.join(root, 'pkga', '__init__.py')
        if os.path.exists(ip):
            os.unlink(ip)
            return 'remove pkga/__init__.py', 'natural'
        w('pkga/__init__.py', module_text('pkga', version, rnd))
        return 'add pkga/__init__.py', 'natural'
    if kind == 'toggle_stub':
        sp = os.path.join(root, 'modb.pyi')
        if os.path.exists(sp):
            os.unlink(sp)
            return 'remove modb.pyi', 'natural'
        with open(sp, 'w') as f:
            f.write('def common_fn(stub_param: int = %d) -> str: ...\nCOMMON: int\n' % version)
        return 'add modb.pyi', 'natural'
    if kind == 'touch' and os.path.exists(p):
        os.utime(p)
        return 'touch %s' % rel, 'natural'
    used = w(rel, module_text(name, version, rnd), timing)
    return 'overwrite %s (%s)' % (rel, used), used


def ask_here(root, roots):
    out = []
    project = jedi.Project(root, sys_path=[root], smart_sys_path=False)
    for i, (code, meth, l, c) in enumerate(QUERIES_TEXT + [REL_QUERY]):
        path = os.path.join(root, 'buf%d.py' % i) if (code, meth, l, c) != REL_QUERY else \
            os.path.join(root, 'pkga', 'bufrel.py')
        s = jedi.Script(code, path=path, project=project)
        out.append(norm.run_query(s, meth, l, c, roots))
        s = None
    return out


_CHILD = r'''
import json, sys, os
job = json.load(open(sys.argv[1]))
from vf import boot
from vf.props import c09
print(json.dumps(c09.ask_here(job['root'], [tuple(r) for r in job['roots']]), default=str))
'''


def ask_child(root, roots, run_dir, tag, cache_dir=None):
    os.makedirs(os.path.join(run_dir, 'jobs'), exist_ok=True)
    jf = os.path.join(run_dir, 'jobs', tag + '.json')
    with open(jf, 'w') as f:
        json.dump({'root': root, 'roots': roots}, f)
    env = dict(os.environ, PYTHONHASHSEED='0', VERIF_RUN_DIR=run_dir, PYTHONPATH=str(VERIF))
    env.pop('VERIF_CACHE_DIR', None)
    if cache_dir:
        env['VERIF_CACHE_DIR'] = cache_dir
    try:
        r = subprocess.run([PYTHON, '-c', _CHILD, jf], cwd=os.getcwd(), env=env, capture_output=True,
                           text=True, timeout=600)
        if r.returncode != 0:
            return None
        return json.loads(r.stdout.strip().splitlines()[-1])
    except (subprocess.TimeoutExpired, ValueError, IndexError):
        return None


def stale_mechanism(root):
    """Is there a project file whose current mtime is not newer than the change_time of the
    parso cache item held for it (the rule under which parso re-uses the old tree)?"""
    hits = []
    for hashed, d in parso.cache.parser_cache.items():
        for path, item in d.items():
            if path and str(path).startswith(root) and os.path.exists(str(path)):
                if os.path.getmtime(str(path)) <= item.change_time:
                    hits.append(os.path.relpath(str(path), root))
    return hits


def run(spec):
    from vf.driver import digest
    rnd = random.Random(spec['seed'])
    rec = apimon.Recorder()
    run_dir = os.environ.get('VERIF_RUN_DIR', '/var/tmp')
    root = os.path.join(run_dir, 'c09-' + spec['id'], 'proj')
    os.makedirs(os.path.join(root, 'pkga'))
    for rel, nm in (('moda.py', 'moda'), ('modb.py', 'modb'), ('pkga/__init__.py', 'pkga'),
                    ('pkga/sub.py', 'sub')):
        with open(os.path.join(root, rel), 'w') as f:
            f.write(module_text(nm, 0, rnd))
    roots = [['<proj>', root]]
    troots = [('<proj>', root)]
    history = []
    nonempty = 0
    suspect = set()   # files whose current content was written with a not-newer mtime
    ask_here(root, troots)   # A has seen version 0 (memory + disk cache)
    for step in range(1, spec['steps'] + 1):
        desc, timing = mutate_fs(rnd, root, step, history)
        history.append(desc)
        m_ = __import__('re').search(r'([\w/]+\.py)(?![\w])', desc)
        touched = m_.group(1) if m_ else None
        if timing in ('equal', 'older') and touched:
            suspect.add(touched)
        elif touched:
            suspect.discard(touched)
        mine = ask_here(root, troots)
        rec.ev('c09:steps')
        if step % 3 and step != spec['steps']:
            continue
        b = ask_child(root, roots, run_dir, '%s-%d-B' % (spec['id'], step))
        c = ask_child(root, roots, run_dir, '%s-%d-C' % (spec['id'], step),
                      cache_dir=jedi.settings.cache_directory)
        if b is None:
            rec.ev('c09:fresh_process_failed')
            continue
        for who, ans in (('A', mine), ('C', c)):
            if ans is None:
                rec.ev('c09:process_C_failed')
                continue
            for qi, (code, meth, l, col) in enumerate(QUERIES_TEXT + [REL_QUERY]):
                x, y = ans[qi], b[qi]
                fx = norm.canon(meth, x.get('ok')) if 'ok' in x else json.dumps(x)
                fy = norm.canon(meth, y.get('ok')) if 'ok' in y else json.dumps(y)
                rec.ev('c09:comparisons')
                if y.get('ok'):
                    nonempty += 1
                if fx != fy:
                    mech = stale_mechanism(root) if who == 'A' else None
                    key = 'c09:stale_%s' % who
                    involved = {f for f in suspect
                                if ('<proj>/' + f) in json.dumps(x) or ('<proj>/' + f) in json.dumps(y)}
                    if involved and (who == 'C' or set(mech or ()) & involved):
                        # listed finding: parso accepts a cached tree when the file's mtime is not
                        # newer than the cached one (memory cache in A, pickle in C)
                        key = 'c09:stale_mtime_not_newer'
                    rec.violate(key, 'process %s answers %r differently from a fresh process after: %s'
                                % (who, code, '; '.join(history[-4:])), case=spec['id'], step=step,
                                query=[code, meth], mechanism_files=mech,
                                answer=json.dumps(x, default=str)[:500],
                                fresh=json.dumps(y, default=str)[:500], history=list(history))
    shutil.rmtree(os.path.dirname(root), ignore_errors=True)
    return {'id': spec['id'], 'digest': digest(history), 'violations': rec.violations,
            'events': {k: v for k, v in rec.events.items() if not k.startswith('call:')},
            'nontrivial': nonempty >= 10,
            'sample': {'case': spec['id'], 'history': history, 'nonempty_comparisons': nonempty}}
