"""Selections for the refactoring properties (C06, C07): expression ranges, statement ranges
and single-assignment variables of a generated program, with the flags the oracles need
(pure and once-evaluated? contains a comprehension? binding occurrence? ...), all read off
the stdlib ast of the text (generated programs are ASCII, so ast byte columns = columns)."""
import ast
import re

IMPURE_CALLEES = re.compile(r'^(print|next|append|pop|var_c\d+|fn_bump\d+|fn_inc\d+|meth_add\d+|'
                            r'fn_unit\d+|fn_risky\d+|extend|insert|remove|clear|update|setdefault)$')


def _callee_name(call):
    f = call.func
    if isinstance(f, ast.Name):
        return f.id
    if isinstance(f, ast.Attribute):
        return f.attr
    return ''


def _segment(text, node):
    lines = text.split('\n')
    if node.lineno == node.end_lineno and 1 <= node.lineno <= len(lines):
        return lines[node.lineno - 1][node.col_offset:node.end_col_offset]
    return ''


def _parents(tree):
    par = {}
    for n in ast.walk(tree):
        for c in ast.iter_child_nodes(n):
            par[c] = n
    return par


_OPERATOR_GAP = re.compile(r'^(\s|\+|-|\*|/|%|<|>|=|!|&|\||\^|~|\band\b|\bor\b|\bnot\b|\bin\b|\bis\b)+$')
_OPTREE = (ast.BinOp, ast.BoolOp, ast.Compare, ast.UnaryOp)


def _operand_runs(text, tree, par, exprs):
    """Text ranges that run from the start of one operand to the end of a later operand of the
    same (parenthesis-free, one-line) operator expression without being a sub-expression in
    Python's expression tree: `b + c` in `a * b + c`, `b - c` in `a - b - c`, `b < c` in
    `a < b < c`.  jedi documents that such ranges can be extracted.  Flags are those of the
    whole operator expression plus operand_run=True."""
    by_range = {(tuple(e['start']), tuple(e['end'])): e for e in exprs}
    lines = text.split('\n')
    out = []
    for top in ast.walk(tree):
        if not isinstance(top, (ast.BinOp, ast.BoolOp, ast.Compare)) or isinstance(par.get(top), _OPTREE):
            continue
        if top.lineno != top.end_lineno:
            continue
        top_sel = by_range.get(((top.lineno, top.col_offset), (top.end_lineno, top.end_col_offset)))
        if top_sel is None:
            continue
        atoms = []
        stack = [top]
        while stack:
            n = stack.pop()
            if isinstance(n, _OPTREE):
                stack.extend(c for c in ast.iter_child_nodes(n) if isinstance(c, ast.expr))
            else:
                atoms.append(n)
        atoms.sort(key=lambda n: n.col_offset)
        if len(atoms) < 3 or any(a.lineno != top.lineno or a.end_lineno != top.lineno for a in atoms):
            continue
        line = lines[top.lineno - 1]
        gaps = [line[a.end_col_offset:b.col_offset] for a, b in zip(atoms, atoms[1:])]
        if not all(_OPERATOR_GAP.match(g) for g in gaps) or \
                line[top.col_offset:atoms[0].col_offset].strip(' -+~not') != '':
            continue       # parentheses (or anything unexpected) between operands: not generated
        for i in range(len(atoms)):
            for j in range(i + 1, len(atoms)):
                if i == 0 and j == len(atoms) - 1:
                    continue
                start, end = (top.lineno, atoms[i].col_offset), (top.lineno, atoms[j].end_col_offset)
                if (start, end) in by_range:
                    continue       # a real sub-expression: already among the ast ranges
                out.append({'start': start, 'end': end, 'code': line[start[1]:end[1]],
                            'flags': dict(top_sel['flags'], operand_run=True, node='OperandRun',
                                          operators=sorted(set(''.join(gaps[i:j]).split())))})
    return out


def analyse(text):
    """Returns (expr selections, statement-range selections, inline candidates)."""
    tree = ast.parse(text)
    par = _parents(tree)
    exprs, stmts, inlines = [], [], []
    if not text.isascii():
        # ast columns are UTF-8 byte offsets: convert to character columns once
        src_lines = text.split('\n')
        for n in ast.walk(tree):
            for a_line, a_col in (('lineno', 'col_offset'), ('end_lineno', 'end_col_offset')):
                ln, col = getattr(n, a_line, None), getattr(n, a_col, None)
                if ln is not None and col is not None and 1 <= ln <= len(src_lines):
                    setattr(n, a_col, len(src_lines[ln - 1].encode('utf-8')[:col].decode('utf-8', 'replace')))

    def chain(n):
        out = []
        while n in par:
            p = par[n]
            out.append((p, n))
            n = p
        return out

    for node in ast.walk(tree):
        if isinstance(node, ast.expr) and hasattr(node, 'end_col_offset'):
            ch = chain(node)
            in_func = any(isinstance(p, (ast.FunctionDef, ast.AsyncFunctionDef)) for p, _ in ch)
            flags = {'in_function': in_func, 'node': type(node).__name__}
            pure = True
            why = []
            ctx = getattr(node, 'ctx', None)
            if isinstance(ctx, (ast.Store, ast.Del)):
                pure = False
                why.append('assignment target')
                flags['binding'] = True
            for p_, child_ in ch:
                if not isinstance(p_, (ast.Attribute, ast.Subscript, ast.Call)):
                    break
                if isinstance(getattr(p_, 'ctx', None), (ast.Store, ast.Del)):
                    flags['expands_to_binding'] = True   # cursor-only selection grows to a target
            # a cursor-only selection grows to the whole operator/trailer expression around it
            top_ = node
            for p_, child_ in ch:
                if not isinstance(p_, (ast.Attribute, ast.Subscript, ast.Call, ast.BinOp, ast.BoolOp,
                                       ast.Compare, ast.UnaryOp, ast.Await)):
                    break
                top_ = p_
            if any(isinstance(x, ast.Await) for x in ast.walk(top_)):
                flags['cursor_expands_to_await'] = True
            if isinstance(node, ast.Starred):
                pure = False
                why.append('starred')
            for sub in ast.walk(node):
                if isinstance(sub, (ast.NamedExpr, ast.Yield, ast.YieldFrom, ast.Await)):
                    pure = False
                    why.append('walrus/yield inside')
                if isinstance(sub, ast.Call) and IMPURE_CALLEES.match(_callee_name(sub)):
                    pure = False
                    why.append('impure call')
                if isinstance(sub, (ast.ListComp, ast.SetComp, ast.DictComp, ast.GeneratorExp)):
                    flags['contains_comprehension'] = True
                if isinstance(sub, ast.Lambda):
                    flags['contains_lambda'] = True
                if isinstance(sub, ast.Await):
                    flags['contains_await'] = True
                if isinstance(sub, ast.Call) and sub.keywords:
                    flags['contains_keyword_argument'] = True
            for p, child in ch:
                if isinstance(p, (ast.Lambda, ast.ListComp, ast.SetComp, ast.DictComp, ast.GeneratorExp,
                                  ast.comprehension)):
                    pure = False
                    why.append('inside lambda/comprehension')
                if isinstance(p, ast.BoolOp) and p.values[0] is not child:
                    pure = False
                    why.append('short-circuit operand')
                if isinstance(p, ast.IfExp) and p.test is not child:
                    pure = False
                    why.append('conditional branch')
                if isinstance(p, ast.While) and p.test is child:
                    pure = False
                    why.append('while condition')
                if isinstance(p, (ast.FunctionDef, ast.AsyncFunctionDef)) and child not in p.body:
                    pure = False
                    why.append('def header')
                if isinstance(p, ast.ClassDef) and child not in p.body:
                    pure = False
                    why.append('class header')
                if isinstance(p, ast.arguments):
                    pure = False
                    why.append('default value')
                if isinstance(p, (ast.JoinedStr, ast.FormattedValue)):
                    pure = False
                    why.append('f-string part')
                if isinstance(p, ast.keyword):
                    pass
                if isinstance(p, (ast.AugAssign,)) and p.target is child:
                    pure = False
                if isinstance(p, (ast.Global, ast.Nonlocal)):
                    pure = False
                if isinstance(p, ast.withitem) and p.optional_vars is child:
                    pure = False
                if isinstance(p, ast.ExceptHandler):
                    if p.type is child:
                        pure = False
                        why.append('except clause')
                if isinstance(p, ast.Call) and p.func is child and isinstance(child, ast.Name) \
                        and child.id == 'super':
                    pure = False
            if isinstance(node, ast.Call) and _callee_name(node) == 'super':
                pure = False
                why.append('super()')
            if isinstance(node, ast.Name) and node.id == 'super':
                pure = False
            # names bound by def/class inside the enclosing function (locally defined callables)
            encl = next((p for p, _ in ch if isinstance(p, (ast.FunctionDef, ast.AsyncFunctionDef))), None)
            if encl is not None:
                local_defs = {x.name for x in ast.walk(encl)
                              if isinstance(x, (ast.FunctionDef, ast.AsyncFunctionDef, ast.ClassDef))
                              and x is not encl}
                used = {x.id for x in ast.walk(node) if isinstance(x, ast.Name)}
                if used & local_defs:
                    flags['uses_local_def'] = True
            # impure calls elsewhere in the same statement that are evaluated before/independently
            stmt = next((p for p, _ in ch if isinstance(p, ast.stmt)), None)
            if stmt is not None:
                ancestors = {id(p) for p, _ in ch}
                inside = {id(x) for x in ast.walk(node)}
                for x in ast.walk(stmt):
                    if isinstance(x, ast.Call) and IMPURE_CALLEES.match(_callee_name(x)) \
                            and id(x) not in ancestors and id(x) not in inside:
                        pure = False
                        why.append('impure call elsewhere in the statement')
                if isinstance(stmt, (ast.AugAssign,)):
                    pass
            flags['pure'] = pure
            flags['why_not_pure'] = sorted(set(why))
            exprs.append({'start': (node.lineno, node.col_offset),
                          'end': (node.end_lineno, node.end_col_offset), 'flags': flags,
                          'code': _segment(text, node)})
        if isinstance(node, (ast.FunctionDef, ast.AsyncFunctionDef)):
            body = node.body
            for i in range(len(body)):
                for j in range(i, min(len(body), i + 3)):
                    a, b = body[i], body[j]
                    seg = body[i:j + 1]
                    has_return = any(isinstance(x, (ast.Return, ast.Yield, ast.YieldFrom))
                                     for s_ in seg for x in ast.walk(s_))
                    def _pure_expr(ex_):
                        for x in ast.walk(ex_):
                            if isinstance(x, (ast.NamedExpr, ast.Yield, ast.YieldFrom, ast.Await, ast.Lambda,
                                              ast.ListComp, ast.SetComp, ast.DictComp, ast.GeneratorExp)):
                                return False
                            if isinstance(x, ast.Call) and (IMPURE_CALLEES.match(_callee_name(x)) or x.keywords):
                                return False
                        return True

                    def _pure_stmt(st_):
                        # plain assignments with pure values, and if/for statements made of them
                        if isinstance(st_, ast.If):
                            return _pure_expr(st_.test) and all(_pure_stmt(x) for x in st_.body + st_.orelse)
                        if isinstance(st_, ast.For):
                            return isinstance(st_.target, ast.Name) and _pure_expr(st_.iter) \
                                and not st_.orelse and all(_pure_stmt(x) for x in st_.body)
                        if not isinstance(st_, (ast.Assign, ast.AugAssign)):
                            return False
                        tg = st_.targets if isinstance(st_, ast.Assign) else [st_.target]
                        if not all(isinstance(t_, ast.Name) for t_ in tg):
                            return False
                        return _pure_expr(st_.value)

                    def _events(st_):
                        # (loads, stores) per simple statement / header, in textual order
                        if isinstance(st_, ast.If):
                            yield {x.id for x in ast.walk(st_.test) if isinstance(x, ast.Name)}, set()
                            for x in st_.body + st_.orelse:
                                yield from _events(x)
                        elif isinstance(st_, (ast.For, ast.AsyncFor)):
                            yield {x.id for x in ast.walk(st_.iter) if isinstance(x, ast.Name)}, \
                                {x.id for x in ast.walk(st_.target) if isinstance(x, ast.Name)}
                            for x in st_.body + st_.orelse:
                                yield from _events(x)
                        else:
                            val = getattr(st_, 'value', None)
                            loads = {x.id for x in (ast.walk(val) if val is not None else ())
                                     if isinstance(x, ast.Name)}
                            if isinstance(st_, ast.AugAssign) and isinstance(st_.target, ast.Name):
                                loads.add(st_.target.id)
                            yield loads, {t_.id for t_ in ast.walk(st_)
                                          if isinstance(t_, ast.Name) and isinstance(t_.ctx, ast.Store)}
                    # a variable that the block reads before (re)binding it itself (textual order)
                    all_assigned = {t_.id for s_ in seg for t_ in ast.walk(s_)
                                    if isinstance(t_, ast.Name) and isinstance(t_.ctx, ast.Store)}
                    so_far, reads_own = set(), False
                    for s_ in seg:
                        for loads, stores in _events(s_):
                            if (loads & all_assigned) - so_far:
                                reads_own = True
                            so_far |= stores
                    # a variable whose only bindings in the block sit in if/for bodies and whose
                    # every read in the block comes later in the same body (so no read of it in
                    # the block can see the binding made before the block)
                    cond_only = False
                    top_stores = {t_.id for s_ in seg if isinstance(s_, (ast.Assign, ast.AugAssign))
                                  for t_ in ast.walk(s_) if isinstance(t_, ast.Name)
                                  and isinstance(t_.ctx, ast.Store)}
                    bodies = [b_ for s_ in seg for c_ in ast.walk(s_) if isinstance(c_, (ast.If, ast.For))
                              for b_ in (c_.body, c_.orelse) if b_]
                    for name_ in all_assigned - top_stores:
                        loads_all = {id(x) for s_ in seg for x in ast.walk(s_)
                                     if isinstance(x, ast.Name) and x.id == name_ and isinstance(x.ctx, ast.Load)}
                        dominated = set()
                        for b_ in bodies:
                            for k_, st_ in enumerate(b_):
                                if isinstance(st_, (ast.Assign, ast.AugAssign)) and any(
                                        isinstance(t_, ast.Name) and t_.id == name_ and isinstance(t_.ctx, ast.Store)
                                        for t_ in ast.walk(st_)):
                                    dominated |= {id(x) for later in b_[k_ + 1:] for x in ast.walk(later)
                                                  if isinstance(x, ast.Name) and x.id == name_}
                                    break
                        for_targets = {t_.id for s_ in seg for c_ in ast.walk(s_) if isinstance(c_, ast.For)
                                       for t_ in ast.walk(c_.target) if isinstance(t_, ast.Name)}
                        if name_ not in for_targets and loads_all <= dominated:
                            cond_only = True
                    stmts.append({'start': (a.lineno, a.col_offset), 'end': (b.end_lineno, b.end_col_offset),
                                  'flags': {'statements': j - i + 1, 'has_return_or_yield': has_return,
                                            'reads_variable_it_rebinds': reads_own,
                                            'rebinds_only_conditionally': cond_only,
                                            'pure_block': all(_pure_stmt(s_) for s_ in seg),
                                            'first': type(a).__name__,
                                            'contains_comprehension': any(
                                                isinstance(x, (ast.ListComp, ast.SetComp, ast.DictComp,
                                                               ast.GeneratorExp))
                                                for s_ in seg for x in ast.walk(s_)),
                                            'contains_def': any(isinstance(x, (ast.FunctionDef, ast.ClassDef,
                                                                               ast.Lambda))
                                                                for s_ in seg for x in ast.walk(s_)),
                                            'contains_await': any(
                                                isinstance(x, (ast.Await, ast.AsyncFor, ast.AsyncWith))
                                                for s_ in seg for x in ast.walk(s_)),
                                            'contains_nonlocal_global': any(
                                                isinstance(x, (ast.Nonlocal, ast.Global))
                                                for s_ in seg for x in ast.walk(s_))}})
    exprs.extend(_operand_runs(text, tree, par, exprs))
    # single-assignment variables (for inline): Name targets assigned exactly once in the file
    counts = {}
    for node in ast.walk(tree):
        if isinstance(node, ast.Name) and isinstance(node.ctx, ast.Store):
            counts.setdefault(node.id, []).append(node)
        if isinstance(node, (ast.AugAssign,)) and isinstance(node.target, ast.Name):
            counts.setdefault(node.target.id, []).append(node.target)
    declared = {n for node in ast.walk(tree) if isinstance(node, (ast.Global, ast.Nonlocal)) for n in node.names}
    for name, nodes in counts.items():
        if len(nodes) == 1 and name not in declared:
            n = nodes[0]
            p = par.get(n)
            simple = isinstance(p, ast.Assign) and len(p.targets) == 1 and p.targets[0] is n
            value_pure = False
            if simple:
                # after inlining the value is evaluated once per use: equivalence is claimed only
                # for values without identity or state (no calls, no mutable displays)
                value_pure = all(isinstance(x, (ast.Constant, ast.Name, ast.BinOp, ast.UnaryOp, ast.Compare,
                                                ast.Attribute, ast.Subscript, ast.Tuple, ast.Load,
                                                ast.operator, ast.unaryop, ast.cmpop, ast.Slice))
                                 for x in ast.walk(p.value))
            uses = sum(1 for x in ast.walk(tree) if isinstance(x, ast.Name) and x.id == name
                       and isinstance(x.ctx, ast.Load))
            in_loop = any(isinstance(pp, (ast.For, ast.While, ast.comprehension)) for pp, _ in chain(n))
            inlines.append({'pos': (n.lineno, n.col_offset), 'name': name,
                            'flags': {'simple_assignment': simple, 'value_pure': value_pure, 'uses': uses,
                                      'in_loop': in_loop,
                                      # the value is evaluated once per use after inlining: equivalence
                                      # needs a pure value whose inputs are not rebound in between;
                                      # generated programs only rebind accumulators, which are impure
                                      'equivalence_claimed': simple and value_pure and uses >= 1
                                      and not in_loop}})
    return exprs, stmts, inlines
